// simk part 2: scheduler, fork child phase, scripted children, signals.
#include "simk.hpp"

#include <cerrno>
#include <cstdio>
#include <cstdlib>
#include <cstring>
#include <fcntl.h>
#include <signal.h>

extern "C" char **environ;

namespace simk {

static inline void mixs(uint64_t &h, uint64_t v) { h = (h ^ v) * 1099511628211ull; }

Thread *Kernel::thread_new(void (*fn)(void *), void *arg) {
  Thread *t = new Thread();
  t->tid = (int) threads.size();
  t->co = coro_create(fn, arg);
  t->co->id = t->tid;
  memset(t->ncalls, 0, sizeof t->ncalls);
  threads.push_back(t);
  return t;
}

void Kernel::enter_call(Kind k) {
  Thread *t = cur;
  kind_calls[k]++;
  if (!t) return;
  if (!t->child) total_calls++;
  bool lib = t->api_depth > 0 && !t->in_callback;
  if (lib) {
    t->ncalls[t->child ? 1 : 0][k]++;
    t->op_calls++;
    if (hooks) hooks->on_libcall(t, k, t->child != nullptr);
  }
  if (total_calls > call_cap && !t->child) {
    capped = true;
    t->st = Thread::PARKED;
    t->ready = nullptr;
    t->park_deadline_ns = -1;
    coro_yield();  // never resumed: run() stops
    abort();
  }
  if (w.jitter_mode) {
    uint32_t v = ch.choose(64);
    if (v >= 48 && v < 60) now_ns += (int64_t) (v - 47) * 7000;         // 7..84 us
    else if (v >= 60 && v < 63) now_ns += (int64_t) (v - 59) * 300000;   // 0.3..0.9 ms
    else if (v == 63 && w.jitter_mode >= 2) now_ns += 1000000 + (int64_t) ch.choose(3) * 1000000;
  }
  if (!t->child) preempt_point(t);
}

void Kernel::preempt_point(Thread *t) {
  if (!w.preempt_num || t->child) return;
  if (ch.choose(w.preempt_den) < w.preempt_num) {
    if (hooks) hooks->on_preempt(t);
    if (w.stall_num && ch.choose(1000) < w.stall_num) {
      // a stalled thread (descheduled, paged out, stopped in a debugger): time passes for everybody else.  Not a park of the
      // library's making, so it is not accounted as time the call spent blocked.
      static const int64_t dur_ms[] = { 1, 50, 1100, 2500 };
      n_stalls++;
      t->st = Thread::PARKED;
      t->ready = nullptr;
      t->park_deadline_ns = now_ns + dur_ms[ch.choose(4)] * 1000000;
      coro_yield();
      t->park_deadline_ns = -1;
      return;
    }
    t->st = Thread::READY;
    coro_yield();
  }
}

void Kernel::park(Thread *t, ReadyFn ready, int64_t deadline_ns, Kind k) {
  if (t->child) {
    fatal = std::string("child phase blocked in ") + kind_name[k];
    t->st = Thread::PARKED;
    t->ready = nullptr;
    t->park_deadline_ns = -1;
    coro_yield();
    abort();
  }
  t->st = Thread::PARKED;
  t->ready = ready;
  t->park_deadline_ns = deadline_ns;
  t->timed_out = false;
  if (t->api_depth > 0 && !t->in_callback) t->op_parked = true;
  if (hooks) hooks->on_park(t, k);
  int64_t t0 = now_ns;
  coro_yield();
  t->op_parked_ns += now_ns - t0;
}

// ------------------------------------------------------------------ fork
static void do_fork(Kernel *k, Thread *t) {
  coro_snapshot(t->co, &t->snap);
  k->heap_snap.clear();
  for (auto &kv : k->heap) {
    Kernel::HeapCopy hc;
    hc.p = kv.first;
    hc.bytes.assign((uint8_t *) kv.first, (uint8_t *) kv.first + kv.second.size);
    k->heap_snap.push_back(std::move(hc));
  }
  k->environ_snap = environ;
  Proc *c = k->proc_new(k->caller->pid);
  c->fds = k->caller->fds;
  for (auto &e : c->fds) if (e.ofd) k->ofd_ref(e.ofd);
  c->cwd = k->caller->cwd;
  memcpy(c->disp, k->caller->disp, sizeof c->disp);
  memcpy(c->sa_flags, k->caller->sa_flags, sizeof c->sa_flags);
  c->rlim_cur = k->caller->rlim_cur;
  c->rlim_max = k->caller->rlim_max;
  c->mask = t->mask;
  c->umask_ = k->caller->umask_;
  c->handle = t->handle;
  c->start_op = t->op;
  c->child_phase = true;
  t->child = c;
  t->fork_ret = 0;
  t->tsan_prev_fiber = coro_tsan_child_fiber_begin(t->co);
}

static void end_child_phase(Kernel *k, Thread *t) {
  int fork_errno = t->snap.valid ? 0 : 0;
  (void) fork_errno;
  coro_restore(t->co, &t->snap);
  // heap: restore pre-fork contents, drop what the child allocated
  for (auto &hc : k->heap_snap) memcpy(hc.p, hc.bytes.data(), hc.bytes.size());
  k->heap_snap.clear();
  for (auto it = k->heap.begin(); it != k->heap.end();) {
    if (it->second.child_made) { free(it->first); it = k->heap.erase(it); }
    else { it->second.child_freed = false; ++it; }
  }
  environ = k->environ_snap;
  Proc *c = t->child;
  c->child_phase = false;
  t->child = nullptr;
  t->fork_ret = c->pid;
  coro_tsan_child_fiber_end(t->co, t->tsan_prev_fiber);
  t->tsan_sync_resume = true;
}

static void run_thread(Kernel *k, Thread *t) {
  k->cur = t;
  t->st = Thread::READY;
  int saved_errno_at_fork = 0;
  for (;;) {
    if (t->tsan_sync_resume) { coro_tsan_sync_next_switch(true); t->tsan_sync_resume = false; }
    coro_resume(t->co);
    if (t->co->done) { t->st = Thread::DONE; break; }
    if (t->st == Thread::FORKREQ) {
      saved_errno_at_fork = t->co->saved_errno;
      do_fork(k, t);
      t->st = Thread::READY;
      t->tsan_sync_resume = true;
      continue;  // child phase runs atomically
    }
    if (t->st == Thread::CHILDEND) {
      end_child_phase(k, t);
      t->co->saved_errno = saved_errno_at_fork;
      t->st = Thread::READY;
      break;  // parent continuation is a fresh scheduling decision
    }
    if (t->child) {
      if (k->fatal.empty()) k->fatal = "child phase yielded";
      break;
    }
    break;
  }
  k->cur = nullptr;
}

// ------------------------------------------------------------------ children
static bool pipe_readable(OFD *o) { return o->pipe->len > 0 || o->pipe->writers == 0; }
static bool pipe_writable(OFD *o) { return o->pipe->space() > 0 || o->pipe->readers == 0; }

static bool fd_read_ready(Kernel *k, Proc *p, int fd) {
  FdEnt *e = k->fdent(p, fd);
  if (!e) return true;
  switch (e->ofd->kind) {
    case OFD::PIPE_R: return pipe_readable(e->ofd);
    case OFD::TTY: return false;
    default: return true;
  }
}
static bool fd_write_ready(Kernel *k, Proc *p, int fd) {
  FdEnt *e = k->fdent(p, fd);
  if (!e) return true;
  if (e->ofd->kind == OFD::PIPE_W) return pipe_writable(e->ofd);
  return true;
}

bool Kernel::child_runnable(Proc *p) {
  if (p->st != Proc::RUNNING || p->child_phase || !p->spec) return false;
  if (p->term_at_ns >= 0 && now_ns >= p->term_at_ns) return true;
  if (p->sleeping) return now_ns >= p->wake_ns;
  if (p->pc >= p->spec->script.size()) return true;
  const Step &s = p->spec->script[p->pc];
  switch (s.k) {
    case Step::WRITE: return fd_write_ready(this, p, s.fd);
    case Step::READ:
    case Step::READ_EOF: return fd_read_ready(this, p, 0);
    case Step::ECHO: return p->prog > 0 ? fd_write_ready(this, p, 1) : fd_read_ready(this, p, 0);
    default: return true;
  }
}

static int64_t child_write(Kernel *k, Proc *p, int fd, int64_t want, bool *fatal_pipe) {
  *fatal_pipe = false;
  FdEnt *e = k->fdent(p, fd);
  int stream = fd == 2 ? 2 : 1;
  // stderr merged into stdout (same open file description): one position-coded stream
  if (fd == 2 && p->err_merged) stream = 1;
  if (!e || (e->ofd->acc & O_ACCMODE) == O_RDONLY) return want;  // EBADF: pretend done
  OFD *o = e->ofd;
  if (o->kind == OFD::PIPE_W) {
    Pipe *pp = o->pipe;
    if (pp->readers == 0) { *fatal_pipe = true; return 0; }
    int64_t n = want < (int64_t) pp->space() ? want : (int64_t) pp->space();
    for (int64_t i = 0; i < n; i++) {
      pp->push(k->byte_at(p->uid, stream, p->out_off[stream]++));
    }
    pp->total_w += (uint64_t) n;
    return n;
  }
  o->written += (uint64_t) want;
  p->out_off[stream] += (uint64_t) want;
  return want;
}

// returns bytes consumed; *eof set at end-of-file
static int64_t child_read(Kernel *k, Proc *p, int64_t max, bool *eof) {
  *eof = false;
  FdEnt *e = k->fdent(p, 0);
  if (!e || (e->ofd->acc & O_ACCMODE) == O_WRONLY) { *eof = true; p->in_gone = true; return 0; }  // the child closed its own stdin
  OFD *o = e->ofd;
  if (o->kind != OFD::PIPE_R) { *eof = true; return 0; }
  Pipe *pp = o->pipe;
  if (pp->len == 0) { *eof = pp->writers == 0; return 0; }
  int64_t n = max < (int64_t) pp->len ? max : (int64_t) pp->len;
  for (int64_t i = 0; i < n; i++) {
    uint8_t b = pp->pop();
    if (b != k->byte_at(1000 + p->handle, 0, p->in_off)) p->in_bad = true;
    p->in_off++;
  }
  pp->total_r += (uint64_t) n;
  return n;
}

void Kernel::child_step(Proc *p) {
  if (p->term_at_ns >= 0 && now_ns >= p->term_at_ns) {
    p->term_at_ns = -1;
    if (p->spec->term == ChildSpec::EXIT_AFTER) child_die(p, false, p->spec->term_code);
    else child_die(p, true, SIGTERM);
    return;
  }
  if (p->sleeping) { p->sleeping = false; p->pc++; return; }
  if (p->pc >= p->spec->script.size()) { child_die(p, false, 0); return; }
  const Step &s = p->spec->script[p->pc];
  switch (s.k) {
    case Step::SLEEP:
      p->sleeping = true;
      p->wake_ns = now_ns + s.n * 1000000;
      break;
    case Step::WRITE: {
      int64_t rem = s.n - p->prog;
      int64_t want = s.chunk > 0 && s.chunk < rem ? s.chunk : rem;
      bool broken = false;
      int64_t n = want > 0 ? child_write(this, p, s.fd, want, &broken) : 0;
      if (broken) {
        if (p->spec->ignore_sigpipe) { p->pc++; p->prog = 0; }
        else child_die(p, true, SIGPIPE);
        break;
      }
      p->prog += n;
      if (p->prog >= s.n) { p->pc++; p->prog = 0; }
      break;
    }
    case Step::READ: {
      bool eof;
      int64_t n = child_read(this, p, s.n - p->prog, &eof);
      p->prog += n;
      if (eof) { p->in_eof = true; p->pc++; p->prog = 0; }
      else if (p->prog >= s.n) { p->pc++; p->prog = 0; }
      break;
    }
    case Step::READ_EOF: {
      bool eof;
      child_read(this, p, 1 << 30, &eof);
      if (eof) { p->in_eof = true; p->pc++; }
      break;
    }
    case Step::ECHO: {
      if (p->prog > 0) {
        bool broken = false;
        int64_t n = child_write(this, p, 1, p->prog, &broken);
        if (broken) { if (p->spec->ignore_sigpipe) { p->prog = 0; } else child_die(p, true, SIGPIPE); break; }
        p->prog -= n;
      } else {
        bool eof;
        int64_t n = child_read(this, p, s.chunk > 0 ? s.chunk : 4096, &eof);
        p->prog = n;
        if (eof) { p->in_eof = true; p->pc++; p->prog = 0; }
      }
      break;
    }
    case Step::CLOSE: fd_close(p, s.fd); p->pc++; break;
    case Step::SPAWN: {
      // a grandchild of the caller (a background job of the program): not the caller's child, never writes, holds the
      // chosen standard descriptors - possibly the far ends of the caller's pipes - open until it ends
      Proc *g = proc_new(p->pid);
      g->handle = -1;
      g->cwd = p->cwd;
      for (int fd = 0; fd < 3; fd++) {
        FdEnt *e = (s.fd & (1 << fd)) ? fdent(p, fd) : nullptr;
        if (e) fd_install(g, fd, e->ofd, false, e->owner);
      }
      ChildSpec *cs = new ChildSpec();
      cs->script.push_back(Step{ Step::SLEEP, 0, s.n, 0 });
      cs->script.push_back(Step{ Step::EXIT, 0, 0, 0 });
      cs->term = ChildSpec::IGNORE;
      dyn_specs.push_back(cs);
      g->spec = cs;
      n_descendants++;
      p->pc++;
      break;
    }
    case Step::EXIT: child_die(p, false, (int) s.n); break;
    case Step::RAISE: child_die(p, true, (int) s.n); break;
  }
}

void Kernel::child_die(Proc *p, bool by_sig, int v) {
  if (p->st != Proc::RUNNING) return;
  if (by_sig && ((v & 0x7f) == 0 || (v & 0x7f) == 0x7f)) v = SIGKILL;  // 0 and 0x7f are not terminating signals (0x7f encodes "stopped")
  p->st = Proc::DYING;
  p->dying_ns = now_ns;
  p->death_by_sig = by_sig;
  p->death_sig = by_sig ? (v & 0x7f) : 0;
  p->death_code = by_sig ? 0 : (v & 0xff);
  p->wstatus = by_sig ? (v & 0x7f) : ((v & 0xff) << 8);
  if (by_sig && w.core_dumps) {
    static const int core_sigs[] = { 3, 4, 5, 6, 7, 8, 11, 24, 25, 31 };  // QUIT ILL TRAP ABRT BUS FPE SEGV XCPU XFSZ SYS
    for (int cs : core_sigs) if (cs == (v & 0x7f)) p->wstatus |= 0x80;
  }
  for (size_t fd = 0; fd < p->fds.size(); fd++) {
    if (!p->fds[fd].ofd) continue;
    OFD *o = p->fds[fd].ofd;
    if (o->kind == OFD::PIPE_W && o->pipe->len > 0 && !p->is_caller) n_data_at_death++;
    fd_close(p, (int) fd);
  }
  Thread *sv = cur; cur = nullptr;
  logrec(K_kern, 1 /* dying */, p->pid, p->wstatus, 0, 0);
  cur = sv;
  if (w.zombie_gap == 0) child_zombify(p);
  else p->zombie_due_ns = now_ns;
}

void Kernel::child_zombify(Proc *p) {
  if (p->st != Proc::DYING) return;
  p->st = Proc::ZOMBIE;
  p->zombie_ns = now_ns;
  if (!p->is_caller && p->ppid != caller->pid) { p->st = Proc::REAPED; p->reaped_ns = now_ns; by_pid.erase(p->pid); }  // somebody else's child: reaped by its own parent or init
  Thread *sv = cur; cur = nullptr;
  logrec(K_kern, 2 /* zombie */, p->pid, p->wstatus, 0, 0);
  cur = sv;
}

void Kernel::deliver(Proc *p, int sig, int from_op) {
  p->sigs.push_back(SigRec{ sig, now_ns, from_op });
  if (p->st != Proc::RUNNING) return;
  if (p->child_phase) { child_die(p, true, sig); return; }
  if (sig == SIGKILL) { child_die(p, true, SIGKILL); return; }
  if (sig == SIGTERM && p->spec) {
    switch (p->spec->term) {
      case ChildSpec::DIE: child_die(p, true, SIGTERM); break;
      case ChildSpec::IGNORE: break;
      case ChildSpec::EXIT_AFTER:
      case ChildSpec::DIE_AFTER:
        if (p->term_at_ns < 0) p->term_at_ns = now_ns + p->spec->term_delay_ms * 1000000;
        break;
    }
    return;
  }
  if (sig == SIGCHLD || sig == SIGURG || sig == SIGWINCH || sig == SIGCONT || sig == 0) return;
  child_die(p, true, sig);
}

void Kernel::start_script(Proc *p, int spec) {
  { FdEnt *a = fdent(p, 1), *b = fdent(p, 2); p->err_merged = a && b && a->ofd == b->ofd; }
  static const ChildSpec empty_spec;
  p->spec = spec >= 0 && (size_t) spec < specs.size() ? &specs[(size_t) spec] : &empty_spec;
  p->pc = 0;
  p->prog = 0;
}

// ------------------------------------------------------------------ main loop
void Kernel::run() {
  std::vector<int> cand;
  uint64_t iters = 0;
  for (;;) {
    if (capped || !fatal.empty()) break;
    if (++iters > 4000000) { capped = true; break; }
    cand.clear();
    bool all_done = true;
    for (Thread *t : threads) {
      if (t->st == Thread::DONE) continue;
      all_done = false;
      if (t->st == Thread::READY) cand.push_back(t->tid);
      else if (t->st == Thread::PARKED) {
        bool rdy = t->ready && t->ready(t);
        bool expired = t->park_deadline_ns >= 0 && now_ns >= t->park_deadline_ns;
        if (rdy || expired) cand.push_back(t->tid);
      }
    }
    if (all_done) break;
    for (Proc *p : procs) {
      if (p->st == Proc::RUNNING && child_runnable(p)) cand.push_back(1000 + p->uid);
      else if (p->st == Proc::DYING && p->zombie_due_ns >= 0) cand.push_back(100000 + p->uid);
    }
    if (cand.empty()) {
      int64_t next = -1;
      auto upd = [&](int64_t v) { if (v >= 0 && (next < 0 || v < next)) next = v; };
      for (Thread *t : threads) if (t->st == Thread::PARKED) upd(t->park_deadline_ns);
      for (Proc *p : procs) {
        if (p->st != Proc::RUNNING || p->child_phase || !p->spec) continue;
        if (p->sleeping) upd(p->wake_ns);
        upd(p->term_at_ns);
      }
      if (next < 0) { hung = true; break; }
      if (next > now_ns) { now_ns = next; clock_jumps++; }
      continue;
    }
    // canonical order: the task that ran last first, then ascending ids
    size_t pick = 0;
    if (cand.size() > 1) {
      for (size_t i = 0; i < cand.size(); i++)
        if (cand[i] == last_task) { std::swap(cand[0], cand[i]); break; }
      pick = ch.choose((uint32_t) cand.size(), w.stick_pct, 100);
    }
    int id = cand[pick];
    if (id != last_task) switches++;
    last_task = id;
    mixs(sched_hash, (uint64_t) id);
    if (id < 1000) {
      Thread *t = threads[(size_t) id];
      if (t->st == Thread::PARKED) {
        bool rdy = t->ready && t->ready(t);
        t->timed_out = !rdy;
      }
      run_thread(this, t);
    } else if (id < 100000) {
      child_step(procs[(size_t) (id - 1000)]);
    } else {
      child_zombify(procs[(size_t) (id - 100000)]);
    }
  }
}

void child_phase_end_forkmode() {
  Thread *t = K->cur;
  if (!t || !t->child) abort();
  Proc *c = t->child;
  ExecImage *img = new ExecImage();
  img->forked_only = true;
  img->cwd = c->cwd;
  img->mask = c->mask;
  img->umask_ = c->umask_;
  memcpy(img->disp, c->disp, sizeof img->disp);
  memcpy(img->sa_flags, c->sa_flags, sizeof img->sa_flags);
  img->t_ns = K->now_ns;
  for (char **e = environ; e && *e; e++) img->envp.push_back(*e);  // what the forked copy of the caller continues with
  for (size_t fd = 0; fd < c->fds.size(); fd++) {
    FdEnt &e = c->fds[fd];
    if (!e.ofd) continue;
    FdSnap s;
    s.ofd_id = e.ofd->id; s.kind = e.ofd->kind; s.pipe_id = e.ofd->pipe ? e.ofd->pipe->id : -1;
    s.vnode = e.ofd->vnode; s.acc = e.ofd->acc; s.nonblock = e.ofd->nonblock; s.owner = e.owner;
    img->fds[(int) fd] = s;
  }
  c->image = img;
  K->start_script(c, t->next_spec);
  if (K->hooks) K->hooks->on_fork_child_done(t, c);
  K->logrec(K_kern, 3 /* fork-mode child continues as script */, c->pid, 0, 0, 0);
  t->st = Thread::CHILDEND;
  coro_tsan_ignore(false);
  coro_abandon();
}

}  // namespace simk
