// simk part 3b: process, signal, time, path and allocator calls.
#include "simk.hpp"

#include <cerrno>
#include <cstdio>
#include <cstdlib>
#include <cstring>
#include <fcntl.h>
#include <signal.h>
#include <sys/resource.h>
#include <sys/stat.h>
#include <sys/time.h>
#include <sys/wait.h>
#include <time.h>
#include <unistd.h>

using namespace simk;

extern "C" char **environ;

static inline bool libctx(Thread *t) { return t && t->api_depth > 0 && !t->in_callback; }

#define FAIL(kind, a, b, c, e, fl) do { errno = (e); K->logrec(kind, a, b, c, -1, e, fl); return -1; } while (0)

static uint64_t str_hash(const char *s) {
  uint64_t h = 1469598103934665603ull;
  for (; *s; s++) h = (h ^ (uint8_t) *s) * 1099511628211ull;
  return h;
}

static void snapshot_fds(Proc *c, ExecImage *img) {
  for (size_t fd = 0; fd < c->fds.size(); fd++) {
    FdEnt &e = c->fds[fd];
    if (!e.ofd) continue;
    FdSnap s;
    s.ofd_id = e.ofd->id; s.kind = e.ofd->kind; s.pipe_id = e.ofd->pipe ? e.ofd->pipe->id : -1;
    s.vnode = e.ofd->vnode; s.acc = e.ofd->acc; s.nonblock = e.ofd->nonblock; s.owner = e.owner;
    img->fds[(int) fd] = s;
  }
}

// Finds the executable execvp would run. Returns the VFS node or -1 with *err set.
static int resolve_exec(Kernel *k, Proc *c, const char *file, char *const envp[], bool search, std::string *chosen, int *err_out) {
  std::string prog(file ? file : "");
  if (prog.empty()) { *err_out = ENOENT; return -1; }
  std::vector<std::string> cands;
  if (!search || prog.find('/') != std::string::npos) cands.push_back(prog);
  else {
    const char *path = nullptr;
    for (char *const *e = envp; e && *e; e++) if (!strncmp(*e, "PATH=", 5)) { path = *e + 5; break; }
    std::string ps = path ? path : "/bin:/usr/bin";
    size_t i = 0;
    for (;;) {
      size_t j = ps.find(':', i);
      std::string d = ps.substr(i, j == std::string::npos ? std::string::npos : j - i);
      cands.push_back(d.empty() ? prog : d + "/" + prog);
      if (j == std::string::npos) break;
      i = j + 1;
    }
  }
  int last_err = ENOENT;
  bool saw_eacces = false;
  for (auto &cp : cands) {
    int err = 0;
    int n = k->vfs_lookup(c->cwd, cp, &err);
    if (n < 0) { if (err == EACCES) saw_eacces = true; last_err = err; if (cands.size() == 1) break; continue; }
    const VNode &vn = k->vfs[(size_t) n];
    if (vn.kind == VNode::EXEC) { *chosen = cp; return n; }
    last_err = EACCES; saw_eacces = true;  // directory, plain file or non-executable
    if (cands.size() == 1) break;
  }
  *err_out = cands.size() > 1 && saw_eacces ? EACCES : last_err;
  return -1;
}

// NOTE: this function ends with coro_abandon(): no object with a destructor may be alive at that point.
static int do_exec(Kind kind, const char *file, char *const argv[], char *const envp[], bool search, bool search_callers_path = false) {
  Kernel *k = K; Thread *t = k->cur;
  k->enter_call(kind);
  if (!t || !t->child) { k->fatal = "exec outside a forked child"; errno = ENOSYS; return -1; }
  if (Fault *f = k->fault_for(kind)) FAIL(kind, 0, 0, 0, f->err, RF_INJECTED);
  Proc *c = t->child;
  ExecImage *img = new ExecImage();
  int node;
  {
    std::string chosen;
    int err = 0;
    node = resolve_exec(k, c, file, search_callers_path ? environ : envp, search, &chosen, &err);
    if (node < 0) { delete img; FAIL(kind, (int64_t) str_hash(file ? file : ""), 0, 0, err, 0); }
    img->path_resolved = chosen;
    img->path_arg = file;
  }
  img->vnode = node;
  for (char *const *a = argv; a && *a; a++) img->argv.push_back(*a);
  for (char *const *e = envp; e && *e; e++) img->envp.push_back(*e);
  img->cwd = c->cwd;
  for (size_t fd = 0; fd < c->fds.size(); fd++)
    if (c->fds[fd].ofd && c->fds[fd].cloexec) k->fd_close(c, (int) fd);
  snapshot_fds(c, img);
  img->mask = c->mask;
  img->umask_ = c->umask_;
  for (int s = 1; s <= 64; s++) { if (c->disp[s] == D_HANDLER) c->disp[s] = D_DFL; c->sa_flags[s] = 0; }
  memcpy(img->disp, c->disp, sizeof img->disp);
  img->t_ns = k->now_ns;
  c->image = img;
  uint64_t ah = 0;
  for (auto &a : img->argv) ah = ah * 1099511628211ull ^ str_hash(a.c_str());
  uint64_t eh = 0;
  for (auto &a : img->envp) eh = eh * 1099511628211ull ^ str_hash(a.c_str());
  k->logrec(kind, node, (int64_t) ah, (int64_t) eh, 0, 0);
  k->start_script(c, t->next_spec);
  if (k->hooks) k->hooks->on_exec(t, c, img);
  t->st = Thread::CHILDEND;
  coro_tsan_ignore(false);
  coro_abandon();
  return -1;
}

extern "C" {

pid_t simk_fork(void) {
  Kernel *k = K; Thread *t = k->cur;
  k->enter_call(K_fork);
  if (Fault *f = k->fault_for(K_fork)) FAIL(K_fork, 0, 0, 0, f->err, RF_INJECTED);
  if (!t || t->child) { k->fatal = "fork inside a forked child"; errno = ENOSYS; return -1; }
  t->st = Thread::FORKREQ;
  coro_tsan_sync_next_switch(true);
  coro_yield();
  int r = t->fork_ret;
  if (r == 0) { coro_tsan_pad(); coro_tsan_ignore(true); }
  k->logrec(K_fork, 0, 0, 0, r, 0);
  return r;
}
pid_t simk_vfork(void) { return simk_fork(); }

int simk_execvp(const char *file, char *const argv[]) { return do_exec(K_execvp, file, argv, environ, true); }
int simk_execv(const char *file, char *const argv[]) { return do_exec(K_execvp, file, argv, environ, false); }
int simk_execve(const char *file, char *const argv[], char *const envp[]) { return do_exec(K_execvp, file, argv, envp, false); }
int simk_execvpe(const char *file, char *const argv[], char *const envp[]) { return do_exec(K_execvp, file, argv, envp, true, true); }  // glibc: the search uses the *caller's* PATH

void simk__exit(int code) {
  Kernel *k = K; Thread *t = k->cur;
  k->enter_call(K__exit);
  if (!t || !t->child) {
    k->fatal = "caller process called _exit";
    k->logrec(K__exit, code, 0, 0, 0, 0);
    if (t) { t->st = Thread::PARKED; t->ready = nullptr; t->park_deadline_ns = -1; coro_yield(); }
    abort();
  }
  Proc *c = t->child;
  k->logrec(K__exit, code, 0, 0, 0, 0);
  k->child_die(c, false, code);
  t->st = Thread::CHILDEND;
  coro_tsan_ignore(false);
  coro_abandon();
}
void simk_exit(int code) { simk__exit(code); }

static bool wait_ready(Thread *t) {
  Kernel *k = K;
  if (t->wait_pid > 0) {
    auto it = k->by_pid.find(t->wait_pid);
    if (it == k->by_pid.end()) return true;
    Proc *p = it->second;
    return p->st == Proc::ZOMBIE || p->st == Proc::FOREIGN || p->ppid != k->caller->pid;
  }
  bool any = false;
  for (Proc *p : k->procs) {
    if (p->ppid != k->caller->pid || p->is_caller) continue;
    if (p->st == Proc::ZOMBIE) return true;
    if (p->st == Proc::RUNNING || p->st == Proc::DYING) any = true;
  }
  return !any;
}

static void reap(Kernel *k, Proc *p) {
  p->st = Proc::REAPED;
  p->reaped_ns = k->now_ns;
  p->reaps++;
  k->by_pid.erase(p->pid);
  if (k->w.pid_reuse == 1) {
    Proc *f = new Proc();
    f->uid = (int) k->procs.size();
    f->pid = p->pid;
    f->ppid = 0;
    f->st = Proc::FOREIGN;
    k->procs.push_back(f);
    k->by_pid[f->pid] = f;
  } else if (k->w.pid_reuse == 2) {
    k->free_pids.push_back(p->pid);
  }
}

pid_t simk_waitpid(pid_t pid, int *status, int options) {
  Kernel *k = K; Thread *t = k->cur;
  k->enter_call(K_waitpid);
  Proc *target = nullptr;
  if (pid > 0) { auto it = k->by_pid.find(pid); if (it != k->by_pid.end()) target = it->second; }
  if (k->hooks && libctx(t)) k->hooks->on_waitpid(t, pid, options, target);
  if (Fault *f = k->fault_for(K_waitpid)) {
    if (f->err == ECHILD) {
      // "no such child" is only ever true: the child has been collected by somebody else (a SIGCHLD policy of the caller, a
      // foreign wait).  For a child that has ended that is what happens here; for one still running the call proceeds normally.
      Proc *c = target && target->ppid == k->caller->pid ? target : nullptr;
      if (c && c->st == Proc::DYING) k->child_zombify(c);
      if (c && c->st == Proc::ZOMBIE) {
        // collected elsewhere; its number stays occupied by an unrelated process (never handed to another child of the caller:
        // what a stale pid can hit after a foreign reap is the foreign reaper's doing)
        c->st = Proc::REAPED; c->reaped_ns = k->now_ns; c->auto_reaped = true;
        Proc *fp = new Proc();
        fp->uid = (int) k->procs.size(); fp->pid = c->pid; fp->ppid = 0; fp->st = Proc::FOREIGN;
        k->procs.push_back(fp);
        k->by_pid[fp->pid] = fp;
        FAIL(K_waitpid, pid, options, 0, ECHILD, RF_INJECTED);
      }
      f->fired = false;
    } else FAIL(K_waitpid, pid, options, 0, f->err, RF_INJECTED);
  }
  if (t && t->child) FAIL(K_waitpid, pid, options, 0, ECHILD, 0);
  bool parked = false;
  for (;;) {
    Proc *z = nullptr;
    bool have_child = false;
    if (pid > 0) {
      auto it = k->by_pid.find(pid);
      Proc *p = it == k->by_pid.end() ? nullptr : it->second;
      if (p && p->ppid == k->caller->pid && p->st != Proc::FOREIGN) {
        have_child = true;
        if (p->st == Proc::ZOMBIE) z = p;
      }
    } else {
      for (Proc *p : k->procs) {
        if (p->ppid != k->caller->pid || p->is_caller) continue;
        if (p->st == Proc::ZOMBIE) { z = p; have_child = true; break; }
        if (p->st == Proc::RUNNING || p->st == Proc::DYING) have_child = true;
      }
    }
    if (z) {
      if (status) *status = z->wstatus;
      int zp = z->pid;
      reap(k, z);
      k->logrec(K_waitpid, pid, options, z->wstatus, zp, 0, parked ? RF_PARKED : 0);
      return zp;
    }
    if (!have_child) FAIL(K_waitpid, pid, options, 0, ECHILD, parked ? RF_PARKED : 0);
    if (options & WNOHANG) { k->logrec(K_waitpid, pid, options, 0, 0, 0); return 0; }
    t->wait_pid = pid;
    parked = true;
    k->park(t, wait_ready, -1, K_waitpid);
  }
}
pid_t simk_wait4(pid_t pid, int *status, int options, void *ru) { (void) ru; return simk_waitpid(pid, status, options); }

int simk_kill(pid_t pid, int sig) {
  Kernel *k = K; Thread *t = k->cur;
  k->enter_call(K_kill);
  Proc *target = nullptr;
  if (pid > 0) { auto it = k->by_pid.find(pid); if (it != k->by_pid.end()) target = it->second; }
  if (k->hooks && libctx(t)) k->hooks->on_kill(t, pid, sig, target);
  if (Fault *f = k->fault_for(K_kill)) FAIL(K_kill, pid, sig, 0, f->err, RF_INJECTED);
  if (pid <= 0) { k->logrec(K_kill, pid, sig, 0, 0, 0); return 0; }  // recorded; never reaches anything
  if (!target) FAIL(K_kill, pid, sig, 0, ESRCH, 0);
  if (sig < 0 || sig > 64) FAIL(K_kill, pid, sig, 0, EINVAL, 0);
  if (sig != 0) k->deliver(target, sig, t ? t->op : -1);
  k->logrec(K_kill, pid, sig, target->uid, 0, 0);
  return 0;
}

static uint64_t set_to_bits(const sigset_t *s) {
  uint64_t b = 0;
  for (int i = 1; i <= 64; i++) if (sigismember(s, i) == 1) b |= 1ull << (i - 1);
  return b;
}
static void bits_to_set(uint64_t b, sigset_t *s) {
  sigemptyset(s);
  for (int i = 1; i <= 64; i++) if (b & (1ull << (i - 1))) sigaddset(s, i);
}

static int mask_op(int how, const sigset_t *set, sigset_t *old, int *err) {
  Kernel *k = K; Thread *t = k->cur;
  uint64_t *m = t->child ? &t->child->mask : &t->mask;
  uint64_t prev = *m;
  if (set) {
    uint64_t b = set_to_bits(set);
    b &= ~((1ull << (SIGKILL - 1)) | (1ull << (SIGSTOP - 1)) | (1ull << 31) | (1ull << 32));
    switch (how) {
      case SIG_BLOCK: *m |= b; break;
      case SIG_UNBLOCK: *m &= ~b; break;
      case SIG_SETMASK: *m = b; break;
      default: *err = EINVAL; return -1;
    }
  }
  if (old) bits_to_set(prev, old);
  k->logrec(K_sigmask, how, (int64_t) *m, (int64_t) prev, 0, 0);
  if (t->child && (prev & ~*m) && k->hooks) k->hooks->on_child_unblock(t, t->child, prev & ~*m);
  return 0;
}

int simk_pthread_sigmask(int how, const sigset_t *set, sigset_t *old) {
  Kernel *k = K;
  k->enter_call(K_sigmask);
  if (Fault *f = k->fault_for(K_sigmask)) { k->logrec(K_sigmask, how, 0, 0, f->err, f->err, RF_INJECTED); return f->err; }
  int err = 0;
  Thread *t = k->cur;
  uint64_t before = t ? t->mask : 0;
  if (mask_op(how, set, old, &err) < 0) { k->logrec(K_sigmask, how, 0, 0, err, err); return err; }
  // signals that were pending are delivered the moment they are unblocked: the caller's handler runs inside this call, and
  // plenty of handlers (a SIGCHLD reaper calling waitpid) leave their own errno behind
  if (k->w.errno_clobber && t && !t->child && (before & ~t->mask) && k->ch.choose(3) == 0) {
    static const int leftovers[] = { ECHILD, EINTR, 0, EAGAIN };
    errno = leftovers[k->ch.choose(4)];
    k->n_errno_clobbered++;
  }
  return 0;
}

int simk_sigprocmask(int how, const sigset_t *set, sigset_t *old) {
  Kernel *k = K;
  k->enter_call(K_sigmask);
  if (Fault *f = k->fault_for(K_sigmask)) FAIL(K_sigmask, how, 0, 0, f->err, RF_INJECTED);
  int err = 0;
  if (mask_op(how, set, old, &err) < 0) FAIL(K_sigmask, how, 0, 0, err, 0);
  return 0;
}

int simk_sigaction(int sig, const struct sigaction *act, struct sigaction *old) {
  Kernel *k = K;
  k->enter_call(K_sigaction);
  if (Fault *f = k->fault_for(K_sigaction)) FAIL(K_sigaction, sig, 0, 0, f->err, RF_INJECTED);
  if (sig < 1 || sig > 64 || (act && (sig == SIGKILL || sig == SIGSTOP))) FAIL(K_sigaction, sig, 0, 0, EINVAL, 0);
  Proc *p = k->curproc();
  if (old) {
    memset(old, 0, sizeof *old);
    old->sa_handler = p->disp[sig] == D_IGN ? SIG_IGN : p->disp[sig] == D_DFL ? SIG_DFL : (void (*)(int)) 0x1000;
    old->sa_flags = (int) p->sa_flags[sig];
  }
  if (act) { p->disp[sig] = act->sa_handler == SIG_DFL ? D_DFL : act->sa_handler == SIG_IGN ? D_IGN : D_HANDLER; p->sa_flags[sig] = (uint32_t) act->sa_flags; }
  k->logrec(K_sigaction, sig, act ? p->disp[sig] : -1, 0, 0, 0);
  return 0;
}
typedef void (*sighandler_fn)(int);
sighandler_fn simk_signal(int sig, sighandler_fn h) {
  struct sigaction a, o;
  memset(&a, 0, sizeof a);
  a.sa_handler = h;
  if (simk_sigaction(sig, &a, &o) < 0) return SIG_ERR;
  return o.sa_handler;
}

int simk_sigfillset(sigset_t *s) {
  Kernel *k = K;
  k->enter_call(K_sigfillset);
  if (Fault *f = k->fault_for(K_sigfillset)) FAIL(K_sigfillset, 0, 0, 0, f->err, RF_INJECTED);
  return sigfillset(s);
}
int simk_sigemptyset(sigset_t *s) {
  Kernel *k = K;
  k->enter_call(K_sigemptyset);
  if (Fault *f = k->fault_for(K_sigemptyset)) FAIL(K_sigemptyset, 0, 0, 0, f->err, RF_INJECTED);
  return sigemptyset(s);
}

int simk_sigaddset(sigset_t *s, int sig) { return sigaddset(s, sig); }
int simk_sigdelset(sigset_t *s, int sig) { return sigdelset(s, sig); }
int simk_sigismember(const sigset_t *s, int sig) { return sigismember(s, sig); }

int simk_getrlimit(int res, struct rlimit *rl) {
  Kernel *k = K;
  k->enter_call(K_getrlimit);
  if (Fault *f = k->fault_for(K_getrlimit)) FAIL(K_getrlimit, res, 0, 0, f->err, RF_INJECTED);
  Proc *p = k->curproc();
  if (res == RLIMIT_NOFILE) { rl->rlim_cur = p->rlim_cur; rl->rlim_max = p->rlim_max; }
  else { rl->rlim_cur = RLIM_INFINITY; rl->rlim_max = RLIM_INFINITY; }
  k->logrec(K_getrlimit, res, (int64_t) rl->rlim_cur, 0, 0, 0);
  return 0;
}

char *simk_getcwd(char *buf, size_t size) {
  Kernel *k = K;
  k->enter_call(K_getcwd);
  if (Fault *f = k->fault_for(K_getcwd)) { errno = f->err; k->logrec(K_getcwd, (int64_t) size, 0, 0, -1, f->err, RF_INJECTED); return nullptr; }
  Proc *p = k->curproc();
  std::string s = k->vfs_path(p->cwd);
  if (!buf || size == 0) { errno = EINVAL; k->logrec(K_getcwd, (int64_t) size, 0, 0, -1, EINVAL); return nullptr; }
  if (s.size() + 1 > size) { k->n_getcwd_erange++; errno = ERANGE; k->logrec(K_getcwd, (int64_t) size, (int64_t) s.size(), 0, -1, ERANGE); return nullptr; }
  memcpy(buf, s.c_str(), s.size() + 1);
  k->logrec(K_getcwd, (int64_t) size, (int64_t) s.size(), 0, 0, 0);
  return buf;
}

int simk_chdir(const char *path) {
  Kernel *k = K;
  k->enter_call(K_chdir);
  if (Fault *f = k->fault_for(K_chdir)) FAIL(K_chdir, 0, 0, 0, f->err, RF_INJECTED);
  Proc *p = k->curproc();
  int err = 0;
  int n = k->vfs_lookup(p->cwd, path, &err);
  if (n < 0) FAIL(K_chdir, 0, 0, 0, err, 0);
  if (k->vfs[(size_t) n].kind != VNode::DIR) FAIL(K_chdir, n, 0, 0, ENOTDIR, 0);
  if (!k->vfs[(size_t) n].searchable) FAIL(K_chdir, n, 0, 0, EACCES, 0);
  p->cwd = n;
  k->logrec(K_chdir, n, 0, 0, 0, 0);
  return 0;
}

int simk_fchdir(int fd) {
  Kernel *k = K;
  k->enter_call(K_chdir);
  if (Fault *f = k->fault_for(K_chdir)) FAIL(K_chdir, fd, 0, 0, f->err, RF_INJECTED);
  Proc *p = k->curproc();
  FdEnt *e = k->fdent(p, fd);
  if (!e) FAIL(K_chdir, fd, 0, 0, EBADF, 0);
  int n = e->ofd->vnode;
  if (e->ofd->kind != OFD::FILE || n < 0 || k->vfs[(size_t) n].kind != VNode::DIR) FAIL(K_chdir, fd, 0, 0, ENOTDIR, 0);
  if (!k->vfs[(size_t) n].searchable) FAIL(K_chdir, n, 0, 0, EACCES, 0);
  p->cwd = n;
  k->logrec(K_chdir, n, 0, 0, 0, 0);
  return 0;
}

int simk_clock_gettime(clockid_t clk, struct timespec *ts) {
  Kernel *k = K; Thread *t = k->cur;
  k->enter_call(K_clock_gettime);
  bool wall = clk == CLOCK_REALTIME || clk == CLOCK_REALTIME_COARSE;
  int64_t ns = k->now_ns + (wall ? k->epoch_ms * 1000000 : 5000ll * 1000000000ll);
  if (wall && k->w.clock_step_at_ms >= 0 && k->now_ns >= k->w.clock_step_at_ms * 1000000) { ns += k->w.clock_step_ms * 1000000; k->n_stepped_reads++; }
  ts->tv_sec = ns / 1000000000;
  ts->tv_nsec = ns % 1000000000;
  // the harness measures on the true (elapsed) time line whatever clock the library chose to read
  if (k->hooks && libctx(t)) k->hooks->on_clock(t, k->epoch_ms + k->now_ns / 1000000);
  k->logrec(K_clock_gettime, clk, ns / 1000000, 0, 0, 0);
  return 0;
}
int simk_gettimeofday(struct timeval *tv, void *tz) {
  (void) tz;
  struct timespec ts;
  simk_clock_gettime(CLOCK_REALTIME, &ts);
  tv->tv_sec = ts.tv_sec; tv->tv_usec = ts.tv_nsec / 1000;
  return 0;
}
time_t simk_time(time_t *o) {
  struct timespec ts;
  simk_clock_gettime(CLOCK_REALTIME, &ts);
  if (o) *o = ts.tv_sec;
  return ts.tv_sec;
}

static bool never(Thread *) { return false; }
int simk_nanosleep(const struct timespec *req, struct timespec *rem) {
  Kernel *k = K; Thread *t = k->cur;
  k->enter_call(K_sleep);
  int64_t ns = (int64_t) req->tv_sec * 1000000000 + req->tv_nsec;
  if (t && t->child) {
    // the phase between fork and exec runs without interleaving: a sleep there just lets that much time pass
    k->now_ns += ns;
    if (rem) { rem->tv_sec = 0; rem->tv_nsec = 0; }
    k->logrec(K_sleep, ns, 0, 0, 0, 0);
    return 0;
  }
  k->park(t, never, k->now_ns + ns, K_sleep);
  if (rem) { rem->tv_sec = 0; rem->tv_nsec = 0; }
  k->logrec(K_sleep, ns, 0, 0, 0, 0);
  return 0;
}
int simk_usleep(unsigned us) { struct timespec ts = { (time_t) (us / 1000000), (long) (us % 1000000) * 1000 }; return simk_nanosleep(&ts, nullptr); }
unsigned simk_sleep(unsigned s) { struct timespec ts = { (time_t) s, 0 }; simk_nanosleep(&ts, nullptr); return 0; }

pid_t simk_getpid(void) { return K->curproc()->pid; }

mode_t simk_umask(mode_t m) {
  Kernel *k = K;
  k->enter_call(K_getpid);
  Proc *p = k->curproc();
  mode_t old = (mode_t) p->umask_;
  p->umask_ = (unsigned) (m & 0777);
  k->logrec(K_getpid, 1 /* umask */, (int64_t) m, (int64_t) old, (int64_t) old, 0);
  return old;
}

// ---------------------------------------------------------------- allocator
static void *ledger_add(Kernel *k, void *p, size_t n, Kind kind) {
  Thread *t = k->cur;
  Kernel::Blk b;
  b.size = n;
  b.owner = libctx(t) ? OWN_LIB : OWN_USER;
  b.op = t ? t->op : -1;
  b.child_freed = false;
  b.child_made = t && t->child;
  k->heap[p] = b;
  k->logrec(kind, (int64_t) n, 0, 0, 1, 0);
  return p;
}

void *simk_malloc(size_t n) {
  Kernel *k = K;
  k->enter_call(K_malloc);
  if (k->fault_for(K_malloc)) { errno = ENOMEM; k->logrec(K_malloc, (int64_t) n, 0, 0, 0, ENOMEM, RF_INJECTED); return nullptr; }
  void *p = malloc(n ? n : 1);
  if (!p) return nullptr;
  memset(p, 0xA5, n);  // recycled memory is never clean
  return ledger_add(k, p, n, K_malloc);
}

void *simk_calloc(size_t a, size_t b) {
  Kernel *k = K;
  k->enter_call(K_calloc);
  if (k->fault_for(K_calloc)) { errno = ENOMEM; k->logrec(K_calloc, (int64_t) (a * b), 0, 0, 0, ENOMEM, RF_INJECTED); return nullptr; }
  size_t n = a * b;
  if (a && n / a != b) { errno = ENOMEM; return nullptr; }
  void *p = calloc(n ? n : 1, 1);
  if (!p) return nullptr;
  return ledger_add(k, p, n, K_calloc);
}

void simk_free(void *p) {
  Kernel *k = K; Thread *t = k->cur;
  k->enter_call(K_free);
  if (!p) return;
  auto it = k->heap.find(p);
  if (it == k->heap.end() || (t && t->child && it->second.child_freed)) {
    k->logrec(K_free, 0, 0, 0, -1, EFAULT);  // double free or foreign pointer: picked up by the ledger oracle
    return;
  }
  if (t && t->child && !it->second.child_made) {
    it->second.child_freed = true;  // the child's copy goes away, the parent's stays
    k->logrec(K_free, (int64_t) it->second.size, 1, 0, 0, 0);
    return;
  }
  k->logrec(K_free, (int64_t) it->second.size, 0, 0, 0, 0);
  k->heap.erase(it);
  free(p);
}

void *simk_realloc(void *p, size_t n) {
  Kernel *k = K; Thread *t = k->cur;
  k->enter_call(K_realloc);
  if (k->fault_for(K_realloc)) { errno = ENOMEM; k->logrec(K_realloc, (int64_t) n, 0, 0, 0, ENOMEM, RF_INJECTED); return nullptr; }
  if (!p) {
    void *q = malloc(n ? n : 1);
    if (!q) return nullptr;
    memset(q, 0xA5, n);
    return ledger_add(k, q, n, K_realloc);
  }
  auto it = k->heap.find(p);
  if (it == k->heap.end()) { k->logrec(K_realloc, (int64_t) n, 0, 0, -1, EFAULT); return nullptr; }
  if (t && t->child && !it->second.child_made) {
    void *q = malloc(n ? n : 1);
    if (!q) return nullptr;
    memset(q, 0xA5, n);
    memcpy(q, p, it->second.size < n ? it->second.size : n);
    it->second.child_freed = true;
    return ledger_add(k, q, n, K_realloc);
  }
  Kernel::Blk b = it->second;
  k->heap.erase(it);
  void *q = realloc(p, n ? n : 1);
  if (!q) { k->heap[p] = b; return nullptr; }
  if (n > b.size) memset((char *) q + b.size, 0xA5, n - b.size);  // the grown part holds whatever was there before
  b.size = n;
  if (libctx(t)) b.owner = OWN_LIB;
  k->heap[q] = b;
  k->logrec(K_realloc, (int64_t) n, 0, 0, 1, 0);
  return q;
}

char *simk_strdup(const char *s) {
  Kernel *k = K;
  k->enter_call(K_strdup);
  size_t n = strlen(s) + 1;
  if (k->fault_for(K_strdup)) { errno = ENOMEM; k->logrec(K_strdup, (int64_t) n, 0, 0, 0, ENOMEM, RF_INJECTED); return nullptr; }
  char *p = (char *) malloc(n);
  if (!p) return nullptr;
  memcpy(p, s, n);
  return (char *) ledger_add(k, p, n, K_strdup);
}
char *simk_strndup(const char *s, size_t m) {
  Kernel *k = K;
  k->enter_call(K_strdup);
  size_t n = strnlen(s, m);
  if (k->fault_for(K_strdup)) { errno = ENOMEM; return nullptr; }
  char *p = (char *) malloc(n + 1);
  if (!p) return nullptr;
  memcpy(p, s, n); p[n] = 0;
  return (char *) ledger_add(k, p, n + 1, K_strdup);
}

// ---- environment editing (setenv & co.): plain edits of `environ`, which the fork snapshot saves and restores like the
// rest of the image.  The arrays and strings are never freed (as with libc, whoever replaces environ owns the old one).
static size_t env_count() { size_t n = 0; if (environ) while (environ[n]) n++; return n; }
static char **env_find(const char *name, size_t len) {
  if (!environ) return nullptr;
  for (char **e = environ; *e; e++) if (strncmp(*e, name, len) == 0 && (*e)[len] == '=') return e;
  return nullptr;
}
int simk_setenv(const char *name, const char *value, int overwrite) {
  K->enter_call(K_getenv);
  if (!name || !*name || strchr(name, '=')) { errno = EINVAL; return -1; }
  size_t ln = strlen(name), lv = strlen(value ? value : "");
  char **slot = env_find(name, ln);
  if (slot && !overwrite) return 0;
  char *str = (char *) malloc(ln + lv + 2);
  if (!str) { errno = ENOMEM; return -1; }
  memcpy(str, name, ln); str[ln] = '='; memcpy(str + ln + 1, value ? value : "", lv + 1);
  if (slot) { *slot = str; return 0; }
  size_t n = env_count();
  char **ne = (char **) malloc((n + 2) * sizeof(char *));
  if (!ne) { errno = ENOMEM; return -1; }
  for (size_t i = 0; i < n; i++) ne[i] = environ[i];
  ne[n] = str; ne[n + 1] = nullptr;
  environ = ne;
  return 0;
}
int simk_unsetenv(const char *name) {
  K->enter_call(K_getenv);
  if (!name || !*name || strchr(name, '=')) { errno = EINVAL; return -1; }
  size_t ln = strlen(name), n = env_count();
  char **ne = (char **) malloc((n + 1) * sizeof(char *));
  if (!ne) { errno = ENOMEM; return -1; }
  size_t j = 0;
  for (size_t i = 0; i < n; i++) if (!(strncmp(environ[i], name, ln) == 0 && environ[i][ln] == '=')) ne[j++] = environ[i];
  ne[j] = nullptr;
  environ = ne;
  return 0;
}
int simk_putenv(char *string) {
  K->enter_call(K_getenv);
  const char *eq = strchr(string, '=');
  if (!eq) return simk_unsetenv(string);
  char **slot = env_find(string, (size_t) (eq - string));
  if (slot) { *slot = string; return 0; }
  size_t n = env_count();
  char **ne = (char **) malloc((n + 2) * sizeof(char *));
  if (!ne) { errno = ENOMEM; return -1; }
  for (size_t i = 0; i < n; i++) ne[i] = environ[i];
  ne[n] = string; ne[n + 1] = nullptr;
  environ = ne;
  return 0;
}
int simk_clearenv(void) {
  K->enter_call(K_getenv);
  environ = nullptr;
  return 0;
}

// strerror_r fills a buffer the library chose.  libc is not instrumented, so in the tsan lane the write is announced by hand:
// a buffer two threads share then shows up as a race like any other shared memory.
#if defined(SIM_TSAN)
extern "C" void __tsan_write_range(void *addr, unsigned long size);
#endif
extern "C" int __xpg_strerror_r(int errnum, char *buf, size_t n);
int simk___xpg_strerror_r(int errnum, char *buf, size_t n) {
#if defined(SIM_TSAN)
  if (buf && n) __tsan_write_range(buf, n < 64 ? n : 64);
#endif
  return __xpg_strerror_r(errnum, buf, n);
}

}  // extern "C"
