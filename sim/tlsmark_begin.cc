// Linked immediately before reproc's objects: brackets the thread-local storage of the library (see tlsmark_end.cc and
// library_statics_reset in harness/runner.cc).  One initialised and one zero-initialised variable, so that both the
// .tdata and the .tbss contributions of the library lie between the two pairs of markers.
extern "C" {
__thread char simk_tls_data_begin = 1;
__thread char simk_tls_bss_begin;
}
