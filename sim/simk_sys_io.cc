// simk part 3a: descriptor and I/O system calls.
#include "simk.hpp"

#include <cerrno>
#include <cstdarg>
#include <cstdio>
#include <cstdlib>
#include <cstring>
#include <fcntl.h>
#include <poll.h>
#include <time.h>
#include <unistd.h>

using namespace simk;

static inline bool libctx(Thread *t) { return t && t->api_depth > 0 && !t->in_callback; }
static inline uint8_t owner_now(Thread *t) { return libctx(t) ? OWN_LIB : OWN_USER; }

#define FAIL(kind, a, b, c, e, fl) do { if ((e) == EMFILE && !((fl) & RF_INJECTED) && K->cur) K->natural_emfile_ops.insert(K->cur->op); errno = (e); K->logrec(kind, a, b, c, -1, e, fl); return -1; } while (0)

extern "C" {

int simk_pipe2(int fds[2], int flags);

int simk_pipe(int fds[2]) { return simk_pipe2(fds, 0); }

int simk_pipe2(int fds[2], int flags) {
  Kernel *k = K; Thread *t = k->cur;
  k->enter_call(K_pipe);
  if (Fault *f = k->fault_for(K_pipe)) FAIL(K_pipe, 0, 0, 0, f->err, RF_INJECTED);
  Proc *p = k->curproc();
  int a = k->fd_alloc(p, 0);
  if (a < 0) FAIL(K_pipe, 0, 0, 0, EMFILE, 0);
  Pipe *pp = k->pipe_new();
  OFD *r = k->ofd_new(OFD::PIPE_R), *w = k->ofd_new(OFD::PIPE_W);
  r->pipe = w->pipe = pp;
  r->acc = O_RDONLY; w->acc = O_WRONLY;
  r->nonblock = w->nonblock = (flags & O_NONBLOCK) != 0;
  k->fd_install(p, a, r, (flags & O_CLOEXEC) != 0, owner_now(t));
  int b = k->fd_alloc(p, 0);
  if (b < 0) { k->fd_close(p, a); FAIL(K_pipe, 0, 0, 0, EMFILE, 0); }
  k->fd_install(p, b, w, (flags & O_CLOEXEC) != 0, owner_now(t));
  fds[0] = a; fds[1] = b;
  k->logrec(K_pipe, a, b, pp->id, 0, 0);
  return 0;
}

int simk_fcntl(int fd, int cmd, ...) {
  va_list ap; va_start(ap, cmd);
  int arg = 0;
  if (cmd == F_SETFD || cmd == F_SETFL || cmd == F_DUPFD || cmd == F_DUPFD_CLOEXEC) arg = va_arg(ap, int);
  va_end(ap);
  Kernel *k = K; Thread *t = k->cur;
  Kind kind = cmd == F_GETFD ? K_fcntl_getfd : cmd == F_SETFD ? K_fcntl_setfd : cmd == F_GETFL ? K_fcntl_getfl
              : cmd == F_SETFL ? K_fcntl_setfl : K_fcntl_other;
  k->enter_call(kind);
  if (Fault *f = k->fault_for(kind)) FAIL(kind, fd, cmd, arg, f->err, RF_INJECTED);
  Proc *p = k->curproc();
  FdEnt *e = k->fdent(p, fd);
  if (!e) {
    errno = EBADF;
    // the child-side close loop probes every descriptor number: do not log misses
    if (!(t && t->child && cmd == F_GETFD)) k->logrec(kind, fd, cmd, arg, -1, EBADF);
    return -1;
  }
  int res = 0;
  switch (cmd) {
    case F_GETFD: res = e->cloexec ? FD_CLOEXEC : 0; break;
    case F_SETFD: e->cloexec = (arg & FD_CLOEXEC) != 0; break;
    case F_GETFL: res = e->ofd->acc | (e->ofd->nonblock ? O_NONBLOCK : 0); break;
    case F_SETFL: e->ofd->nonblock = (arg & O_NONBLOCK) != 0; break;
    case F_DUPFD:
    case F_DUPFD_CLOEXEC: {
      int nfd = k->fd_alloc(p, arg);
      if (nfd < 0) FAIL(kind, fd, cmd, arg, EMFILE, 0);
      k->fd_install(p, nfd, e->ofd, cmd == F_DUPFD_CLOEXEC, owner_now(t));
      res = nfd;
      break;
    }
    default: FAIL(kind, fd, cmd, arg, EINVAL, 0);
  }
  k->logrec(kind, fd, cmd, arg, res, 0);
  return res;
}

static bool rd_ready(Thread *t) { OFD *o = t->wait_ofd; return o->pipe->len > 0 || o->pipe->writers == 0; }
static bool wr_ready(Thread *t) { OFD *o = t->wait_ofd; return o->pipe->space() >= t->wait_need || o->pipe->readers == 0; }
static bool never_ready(Thread *) { return false; }

ssize_t simk_read(int fd, void *buf, size_t n) {
  Kernel *k = K; Thread *t = k->cur;
  k->enter_call(K_read);
  Fault *f = k->fault_for(K_read);
  if (f && f->err > 0) FAIL(K_read, fd, (int64_t) n, 0, f->err, RF_INJECTED);
  Proc *p = k->curproc();
  FdEnt *e = k->fdent(p, fd);
  if (!e || (e->ofd->acc & O_ACCMODE) == O_WRONLY) FAIL(K_read, fd, (int64_t) n, 0, EBADF, 0);
  OFD *o = e->ofd;
  if (o->kind == OFD::NUL || o->kind == OFD::FILE) { k->logrec(K_read, fd, (int64_t) n, 0, 0, 0); return 0; }
  if (o->kind == OFD::TTY) {
    if (n == 0) { k->logrec(K_read, fd, 0, 0, 0, 0); return 0; }
    if (o->nonblock) FAIL(K_read, fd, (int64_t) n, 0, EAGAIN, 0);
    k->park(t, never_ready, -1, K_read);
    FAIL(K_read, fd, (int64_t) n, 0, EINTR, 0);
  }
  Pipe *pp = o->pipe;
  if (n == 0) { k->logrec(K_read, fd, 0, 0, 0, 0); return 0; }
  bool parked = false;
  for (;;) {
    if (pp->len > 0) {
      size_t m = n < pp->len ? n : pp->len;
      if (f && f->err == F_SHORT && f->variant > 0 && (size_t) f->variant < m) m = (size_t) f->variant;
      uint8_t *d = (uint8_t *) buf;
      for (size_t i = 0; i < m; i++) d[i] = pp->pop();
      pp->total_r += m;
      if (t) t->op_read_bytes += m;
      k->logrec(K_read, fd, (int64_t) n, pp->id, (int64_t) m, 0, (parked ? RF_PARKED : 0) | (f ? RF_INJECTED : 0));
      return (ssize_t) m;
    }
    if (pp->writers == 0) { k->logrec(K_read, fd, (int64_t) n, pp->id, 0, 0, parked ? RF_PARKED : 0); return 0; }
    if (o->nonblock) FAIL(K_read, fd, (int64_t) n, pp->id, EAGAIN, 0);
    t->wait_ofd = o;
    parked = true;
    k->park(t, rd_ready, -1, K_read);
    // the descriptor may have been closed meanwhile by another thread; the
    // description stays alive for the duration of the call as on Linux
  }
}

ssize_t simk_write(int fd, const void *buf, size_t n) {
  Kernel *k = K; Thread *t = k->cur;
  k->enter_call(K_write);
  Fault *f = k->fault_for(K_write);
  if (f && f->err > 0) FAIL(K_write, fd, (int64_t) n, 0, f->err, RF_INJECTED);
  Proc *p = k->curproc();
  FdEnt *e = k->fdent(p, fd);
  if (!e || (e->ofd->acc & O_ACCMODE) == O_RDONLY) FAIL(K_write, fd, (int64_t) n, 0, EBADF, 0);
  OFD *o = e->ofd;
  if (o->kind != OFD::PIPE_W) {
    o->written += n;
    k->logrec(K_write, fd, (int64_t) n, 0, (int64_t) n, 0);
    return (ssize_t) n;
  }
  Pipe *pp = o->pipe;
  if (n == 0) { k->logrec(K_write, fd, 0, pp->id, 0, 0); return 0; }  // as on Linux: nothing is checked for an empty write
  if (pp->readers == 0) FAIL(K_write, fd, (int64_t) n, pp->id, EPIPE, 0);
  size_t atomic = pp->cap < 4096 ? pp->cap : 4096;
  size_t limit = n;
  if (f && f->err == F_SHORT && f->variant > 0 && (size_t) f->variant < n) limit = (size_t) f->variant;
  const uint8_t *s = (const uint8_t *) buf;
  size_t done = 0;
  bool parked = false;
  for (;;) {
    if (pp->readers == 0) {
      if (done > 0) break;
      FAIL(K_write, fd, (int64_t) n, pp->id, EPIPE, parked ? RF_PARKED : 0);
    }
    size_t sp = pp->space();
    size_t want = limit - done;
    if (n <= atomic && sp < want) sp = 0;  // PIPE_BUF atomicity: all or nothing
    size_t m = want < sp ? want : sp;
    for (size_t i = 0; i < m; i++) pp->push(s[done + i]);
    pp->total_w += m;
    done += m;
    if (done >= limit) break;
    if (o->nonblock) {
      if (done > 0) break;
      FAIL(K_write, fd, (int64_t) n, pp->id, EAGAIN, 0);
    }
    t->wait_ofd = o;
    t->wait_need = n <= atomic ? limit - done : 1;
    parked = true;
    k->park(t, wr_ready, -1, K_write);
  }
  k->logrec(K_write, fd, (int64_t) n, pp->id, (int64_t) done, 0, (parked ? RF_PARKED : 0) | (f ? RF_INJECTED : 0));
  return (ssize_t) done;
}

static int poll_scan(Kernel *k, Proc *p, pollfd_sim *fds, size_t n) {
  int cnt = 0;
  for (size_t i = 0; i < n; i++) {
    fds[i].revents = 0;
    if (fds[i].fd < 0) continue;
    FdEnt *e = k->fdent(p, fds[i].fd);
    short r = 0;
    if (!e) r = POLLNVAL;
    else {
      OFD *o = e->ofd;
      short ev = fds[i].events;
      switch (o->kind) {
        case OFD::PIPE_R:
          if ((ev & POLLIN) && o->pipe->len > 0) r |= POLLIN;
          if (o->pipe->writers == 0) r |= POLLHUP;
          break;
        case OFD::PIPE_W:
          if ((ev & POLLOUT) && o->pipe->space() > 0) r |= POLLOUT;
          if (o->pipe->readers == 0) r |= POLLERR;
          break;
        case OFD::TTY:
          if (ev & POLLOUT) r |= POLLOUT;
          break;
        default:
          r |= (short) (ev & (POLLIN | POLLOUT));
      }
    }
    fds[i].revents = r;
    if (r) cnt++;
  }
  return cnt;
}

static bool poll_ready(Thread *t) {
  std::vector<pollfd_sim> tmp = *t->pfds;
  return poll_scan(K, K->caller, tmp.data(), tmp.size()) > 0;
}

int simk_poll(struct pollfd *ufds, nfds_t nfds, int timeout) {
  Kernel *k = K; Thread *t = k->cur;
  k->enter_call(K_poll);
  std::vector<pollfd_sim> v(nfds);
  for (size_t i = 0; i < nfds; i++) { v[i].fd = ufds[i].fd; v[i].events = ufds[i].events; v[i].revents = 0; }
  if (k->hooks && libctx(t)) k->hooks->on_poll(t, v.data(), v.size(), timeout);
  Fault *f = k->fault_for(K_poll);
  if (f && f->variant == 0) FAIL(K_poll, (int64_t) nfds, timeout, 0, f->err, RF_INJECTED);
  Proc *p = k->curproc();
  int cnt = poll_scan(k, p, v.data(), v.size());
  bool parked = false;
  if (cnt == 0 && timeout != 0) {
    int64_t dl = timeout < 0 ? -1 : k->now_ns + (int64_t) timeout * 1000000;
    if (f) {  // interrupted after waiting `variant` ms (or at the timeout, whichever is first)
      int64_t idl = k->now_ns + (int64_t) f->variant * 1000000;
      if (dl < 0 || idl < dl) dl = idl; else f = nullptr;
    }
    t->pfds = &v;
    parked = true;
    k->park(t, poll_ready, dl, K_poll);
    t->pfds = nullptr;
    // buggify: a thread whose poll timed out is not scheduled at once (wake-up latency is legal on any kernel)
    if (t->timed_out && k->w.jitter_mode >= 1 && k->ch.choose(6) == 0) k->now_ns += (int64_t) (5 + k->ch.choose(90)) * 1000000;
    cnt = poll_scan(k, p, v.data(), v.size());
    if (cnt == 0 && f) FAIL(K_poll, (int64_t) nfds, timeout, 0, f->err, RF_INJECTED | RF_PARKED);
  }
  if (k->hooks && libctx(t)) k->hooks->on_poll_return(t, v.data(), v.size(), cnt);
  uint64_t summary = 0;
  for (size_t i = 0; i < nfds; i++) { ufds[i].revents = v[i].revents; summary = summary * 31 + (uint64_t) (uint16_t) v[i].revents + (uint64_t) (v[i].fd + 1) * 7; }
  k->logrec(K_poll, (int64_t) nfds, timeout, (int64_t) summary, cnt, 0, parked ? RF_PARKED : 0);
  return cnt;
}

int simk_ppoll(struct pollfd *ufds, nfds_t nfds, const struct timespec *ts, const void *sigmask) {
  (void) sigmask;
  int timeout = -1;
  if (ts) {
    int64_t ms = (int64_t) ts->tv_sec * 1000 + (ts->tv_nsec + 999999) / 1000000;
    timeout = ms > 0x7fffffff ? 0x7fffffff : (int) ms;
  }
  return simk_poll(ufds, nfds, timeout);
}

int simk_open(const char *path, int flags, ...) {
  Kernel *k = K; Thread *t = k->cur;
  k->enter_call(K_open);
  if (Fault *f = k->fault_for(K_open)) FAIL(K_open, flags, 0, 0, f->err, RF_INJECTED);
  Proc *p = k->curproc();
  int err = 0;
  std::string sp(path);
  int n = k->vfs_lookup(p->cwd, sp, &err);
  if (n < 0 && err == ENOENT && (flags & O_CREAT)) {
    // create in the parent directory if that exists
    size_t sl = sp.find_last_of('/');
    std::string dir = sl == std::string::npos ? "." : sl == 0 ? "/" : sp.substr(0, sl);
    std::string base = sl == std::string::npos ? sp : sp.substr(sl + 1);
    int derr = 0;
    int d = k->vfs_lookup(p->cwd, dir, &derr);
    if (d < 0) FAIL(K_open, flags, 0, 0, derr, 0);
    if (k->vfs[(size_t) d].kind != VNode::DIR) FAIL(K_open, flags, 0, 0, ENOTDIR, 0);
    if (base.empty()) FAIL(K_open, flags, 0, 0, EISDIR, 0);
    if (!k->vfs[(size_t) d].writable) FAIL(K_open, flags, 0, 0, EACCES, 0);
    n = k->vfs_add(d, base, VNode::FILE);
  } else if (n < 0) {
    FAIL(K_open, flags, 0, 0, err, 0);
  }
  const VNode &vn = k->vfs[(size_t) n];
  int acc = flags & O_ACCMODE;
  if (vn.kind == VNode::DIR && acc != O_RDONLY) FAIL(K_open, flags, n, 0, EISDIR, 0);
  if (vn.kind != VNode::DIR && vn.kind != VNode::DEVNULL && !vn.writable && acc != O_RDONLY) FAIL(K_open, flags, n, 0, EACCES, 0);
  int fd = k->fd_alloc(p, 0);
  if (fd < 0) FAIL(K_open, flags, n, 0, EMFILE, 0);
  OFD *o = k->ofd_new(vn.kind == VNode::DEVNULL ? OFD::NUL : OFD::FILE);
  o->vnode = n;
  o->acc = acc;
  o->nonblock = (flags & O_NONBLOCK) != 0;
  k->fd_install(p, fd, o, (flags & O_CLOEXEC) != 0, owner_now(t));
  k->logrec(K_open, flags, n, 0, fd, 0);
  return fd;
}

int simk_close(int fd) {
  Kernel *k = K; Thread *t = k->cur;
  k->enter_call(K_close);
  Fault *f = k->fault_for(K_close);
  Proc *p = k->curproc();
  FdEnt *e = k->fdent(p, fd);
  if (k->hooks && libctx(t)) k->hooks->on_close(t, p, fd, e);
  if (!e) FAIL(K_close, fd, 0, 0, EBADF, 0);
  k->fd_close(p, fd);
  if (libctx(t) && !t->child && k->w.reoccupy_num && k->ch.choose(100) < k->w.reoccupy_num) {
    // buggify: another part of the program immediately re-uses the number
    int nfd = k->fd_alloc(p, 3);  // never a standard stream number: those have a meaning of their own for the next start
    if (nfd >= 0) {
      OFD *o = k->ofd_new(OFD::NUL);
      o->acc = O_RDWR;
      uint8_t sv_depth = (uint8_t) t->api_depth; t->api_depth = 0;
      k->fd_install(p, nfd, o, false, OWN_USER);
      t->api_depth = sv_depth;
      k->reoccupied.push_back(nfd);
      k->logrec(K_kern, 4 /* reoccupy */, nfd, 0, 0, 0);
    }
  }
  if (f) FAIL(K_close, fd, 0, 0, f->err, RF_INJECTED);  // descriptor is released anyway, as on Linux
  k->logrec(K_close, fd, 0, 0, 0, 0);
  return 0;
}

int simk_dup3(int oldfd, int newfd, int flags) {
  Kernel *k = K; Thread *t = k->cur;
  k->enter_call(K_dup2);
  if (Fault *f = k->fault_for(K_dup2)) FAIL(K_dup2, oldfd, newfd, 0, f->err, RF_INJECTED);
  Proc *p = k->curproc();
  FdEnt *e = k->fdent(p, oldfd);
  if (!e) FAIL(K_dup2, oldfd, newfd, 0, EBADF, 0);
  if (newfd < 0 || (uint64_t) newfd >= p->rlim_cur) FAIL(K_dup2, oldfd, newfd, 0, EBADF, 0);
  if (oldfd == newfd) { k->logrec(K_dup2, oldfd, newfd, 0, newfd, 0); return newfd; }
  OFD *o = e->ofd;
  FdEnt *ne = k->fdent(p, newfd);
  if (ne) {
    if (k->hooks && libctx(t)) k->hooks->on_close(t, p, newfd, ne);
    k->fd_close(p, newfd);
  }
  k->fd_install(p, newfd, o, (flags & O_CLOEXEC) != 0, owner_now(t));
  k->logrec(K_dup2, oldfd, newfd, o->id, newfd, 0);
  return newfd;
}

int simk_dup2(int oldfd, int newfd) { return simk_dup3(oldfd, newfd, 0); }

int simk_dup(int fd) {
  Kernel *k = K; Thread *t = k->cur;
  k->enter_call(K_dup);
  if (Fault *f = k->fault_for(K_dup)) FAIL(K_dup, fd, 0, 0, f->err, RF_INJECTED);
  Proc *p = k->curproc();
  FdEnt *e = k->fdent(p, fd);
  if (!e) FAIL(K_dup, fd, 0, 0, EBADF, 0);
  int nfd = k->fd_alloc(p, 0);
  if (nfd < 0) FAIL(K_dup, fd, 0, 0, EMFILE, 0);
  k->fd_install(p, nfd, e->ofd, false, owner_now(t));
  k->logrec(K_dup, fd, 0, 0, nfd, 0);
  return nfd;
}

int simk_close_range(unsigned first, unsigned last, int flags) {
  Kernel *k = K; Thread *t = k->cur;
  k->enter_call(K_close_range);
  if (Fault *f = k->fault_for(K_close_range)) FAIL(K_close_range, first, last, flags, f->err, RF_INJECTED);
  Proc *p = k->curproc();
  for (size_t fd = first; fd < p->fds.size() && fd <= last; fd++) {
    FdEnt *e = k->fdent(p, (int) fd);
    if (!e) continue;
    if (flags & 4 /* CLOSE_RANGE_CLOEXEC */) { e->cloexec = true; continue; }
    if (k->hooks && libctx(t)) k->hooks->on_close(t, p, (int) fd, e);
    k->fd_close(p, (int) fd);
  }
  k->logrec(K_close_range, first, last, flags, 0, 0);
  return 0;
}

int simk_fileno(FILE *fp) {
  Kernel *k = K;
  k->enter_call(K_fileno);
  if (Fault *f = k->fault_for(K_fileno)) FAIL(K_fileno, 0, 0, 0, f->err, RF_INJECTED);
  int fd = -2;
  if (fp == stdin) fd = 0;
  else if (fp == stdout) fd = 1;
  else if (fp == stderr) fd = 2;
  else {
    auto it = k->files.find((const void *) fp);
    if (it != k->files.end()) fd = it->second;
  }
  if (fd == -2) { k->fatal = "fileno on an unknown FILE*"; fd = -1; }
  if (fd < 0) FAIL(K_fileno, 0, 0, 0, EBADF, 0);
  k->logrec(K_fileno, fd, 0, 0, fd, 0);
  return fd;
}

}  // extern "C"
