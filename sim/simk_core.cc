// simk part 1: objects, VFS, descriptor tables, log, chooser.
#include "simk.hpp"

#include <cerrno>
#include <cstdio>
#include <cstdlib>
#include <cstring>
#include <fcntl.h>

extern "C" char **environ;

namespace simk {

Kernel *K = nullptr;

const char *const kind_name[K_COUNT] = {
#define X(n) #n,
  SIMK_KINDS(X)
#undef X
};

Kind kind_from_name(const std::string &s) {
  for (int i = 0; i < K_COUNT; i++)
    if (s == kind_name[i]) return (Kind) i;
  return K_COUNT;
}

uint32_t Chooser::choose(uint32_t n, unsigned bias_zero_num, unsigned bias_den) {
  if (n <= 1) return 0;
  uint32_t v;
  if (use_replay) {
    v = pos < replay.size() ? replay[pos] % n : 0;
    pos++;
  } else {
    if (bias_zero_num && rng.below(bias_den) < bias_zero_num) v = 0;
    else v = (uint32_t) rng.below(n);
  }
  rec.push_back(v);
  return v;
}

Kernel::Kernel() {}
Kernel::~Kernel() { reset(World(), 0); }

void Kernel::reset(const World &nw, uint64_t nsalt) {
  for (auto &kv : heap) free(kv.first);
  heap.clear();
  heap_snap.clear();
  for (auto *p : procs) { delete p->image; delete p; }
  for (auto *c : dyn_specs) delete c;
  dyn_specs.clear();
  procs.clear();
  by_pid.clear();
  for (auto *p : pipes) delete p;
  pipes.clear();
  for (auto *o : ofds) delete o;
  ofds.clear();
  for (auto *t : threads) { coro_destroy(t->co); delete t; }
  threads.clear();
  vfs.clear();
  specs.clear();
  faults.clear();
  files.clear();
  log.clear();
  reoccupied.clear();
  free_pids.clear();
  w = nw;
  salt = nsalt;
  now_ns = 0;
  seq = 0;
  log_hash = 1469598103934665603ull;
  sched_hash = 1469598103934665603ull;
  next_pid = 100;
  total_calls = 0;
  capped = hung = false;
  fatal.clear();
  memset(kind_calls, 0, sizeof kind_calls);
  memset(fired_by_kind, 0, sizeof fired_by_kind);
  switches = clock_jumps = 0;
  n_getcwd_erange = n_data_at_death = 0;
  n_descendants = 0;
  n_stepped_reads = 0;
  n_stalls = 0;
  n_errno_clobbered = 0;
  natural_emfile_ops.clear();
  cur = nullptr;
  last_task = -1;
  caller = nullptr;
  ch.rec.clear();
  ch.pos = 0;
  // VFS skeleton
  VNode root; root.kind = VNode::DIR; root.parent = 0; root.name = "";
  vfs.push_back(root);
  int dev = vfs_add(0, "dev", VNode::DIR);
  vfs_add(dev, "null", VNode::DEVNULL);
  vfs_add(0, "bin", VNode::DIR);
  vfs_add(0, "tmp", VNode::DIR);
  // caller process
  caller = proc_new(0);
  caller->is_caller = true;
  caller->pid = 1;
  by_pid.erase(caller->pid);
  by_pid[1] = caller;
  caller->rlim_cur = w.rlim_cur;
  caller->rlim_max = w.rlim_max;
}

// ------------------------------------------------------------------ VFS
int Kernel::vfs_add(int parent, std::string name, VNode::K kind) {
  VNode n; n.kind = kind; n.parent = parent; n.name = name;
  vfs.push_back(n);
  int id = (int) vfs.size() - 1;
  vfs[(size_t) parent].kids[name] = id;
  return id;
}

int Kernel::vfs_lookup(int start, const std::string &path, int *err) const {
  *err = 0;
  if (path.empty()) { *err = ENOENT; return -1; }
  if (path.size() >= 4096) { *err = ENAMETOOLONG; return -1; }
  int cur_n = path[0] == '/' ? 0 : start;
  size_t i = 0;
  while (i < path.size()) {
    while (i < path.size() && path[i] == '/') i++;
    if (i >= path.size()) break;
    size_t j = i;
    while (j < path.size() && path[j] != '/') j++;
    std::string comp = path.substr(i, j - i);
    i = j;
    const VNode &d = vfs[(size_t) cur_n];
    if (d.kind != VNode::DIR) { *err = ENOTDIR; return -1; }
    if (!d.searchable) { *err = EACCES; return -1; }
    if (comp.size() > 255) { *err = ENAMETOOLONG; return -1; }
    if (comp == ".") continue;
    if (comp == "..") { cur_n = d.parent; continue; }
    auto it = d.kids.find(comp);
    if (it == d.kids.end()) { *err = ENOENT; return -1; }
    cur_n = it->second;
  }
  // trailing slash on a non-directory
  if (path.size() > 1 && path.back() == '/' && vfs[(size_t) cur_n].kind != VNode::DIR) { *err = ENOTDIR; return -1; }
  return cur_n;
}

std::string Kernel::vfs_path(int node) const {
  if (node == 0) return "/";
  std::vector<int> chain;
  for (int n = node; n != 0; n = vfs[(size_t) n].parent) chain.push_back(n);
  std::string r;
  for (size_t k = chain.size(); k-- > 0;) { r += '/'; r += vfs[(size_t) chain[k]].name; }
  return r;
}

int Kernel::vfs_mkdirs(int start, int depth, size_t comp_len, char fill) {
  int n = start;
  for (int i = 0; i < depth; i++) {
    std::string name(comp_len, fill);
    auto it = vfs[(size_t) n].kids.find(name);
    n = it != vfs[(size_t) n].kids.end() ? it->second : vfs_add(n, name, VNode::DIR);
  }
  return n;
}

// ------------------------------------------------------------------ procs / fds
Proc *Kernel::proc_new(int ppid) {
  Proc *p = new Proc();
  p->uid = (int) procs.size();
  p->ppid = ppid;
  if (!free_pids.empty() && w.pid_reuse == 2) {
    p->pid = free_pids.back();
    free_pids.pop_back();
  } else {
    p->pid = next_pid++;
  }
  procs.push_back(p);
  by_pid[p->pid] = p;
  return p;
}

FdEnt *Kernel::fdent(Proc *p, int fd) {
  if (fd < 0 || (size_t) fd >= p->fds.size()) return nullptr;
  FdEnt *e = &p->fds[(size_t) fd];
  return e->ofd ? e : nullptr;
}

int Kernel::fd_alloc(Proc *p, int min_fd) {
  for (int fd = min_fd;; fd++) {
    if ((uint64_t) fd >= p->rlim_cur) return -1;
    if ((size_t) fd >= p->fds.size() || !p->fds[(size_t) fd].ofd) return fd;
  }
}

int Kernel::fd_install(Proc *p, int fd, OFD *o, bool cloexec, uint8_t owner) {
  if ((size_t) fd >= p->fds.size()) p->fds.resize((size_t) fd + 1);
  FdEnt &e = p->fds[(size_t) fd];
  e.ofd = o;
  e.cloexec = cloexec;
  e.owner = owner;
  e.made_op = cur ? cur->op : -1;
  e.made_handle = cur ? cur->handle : -1;
  ofd_ref(o);
  return fd;
}

void Kernel::fd_close(Proc *p, int fd) {
  FdEnt *e = fdent(p, fd);
  if (!e) return;
  OFD *o = e->ofd;
  *e = FdEnt();
  ofd_unref(o);
}

OFD *Kernel::ofd_new(OFD::K kind) {
  OFD *o = new OFD();
  o->kind = kind;
  o->id = (int) ofds.size();
  ofds.push_back(o);
  return o;
}

void Kernel::ofd_ref(OFD *o) {
  if (o->refs++ == 0 && o->pipe) {
    if (o->kind == OFD::PIPE_R) o->pipe->readers++;
    if (o->kind == OFD::PIPE_W) o->pipe->writers++;
  }
}

void Kernel::ofd_unref(OFD *o) {
  if (--o->refs == 0 && o->pipe) {
    if (o->kind == OFD::PIPE_R) o->pipe->readers--;
    if (o->kind == OFD::PIPE_W) o->pipe->writers--;
  }
}

Pipe *Kernel::pipe_new() {
  Pipe *p = new Pipe();
  p->id = (int) pipes.size();
  p->cap = w.pipe_cap;
  pipes.push_back(p);
  return p;
}

int Kernel::user_pipe(int fds[2]) {
  Pipe *pp = pipe_new();
  OFD *r = ofd_new(OFD::PIPE_R), *wr = ofd_new(OFD::PIPE_W);
  r->pipe = wr->pipe = pp;
  r->acc = O_RDONLY; wr->acc = O_WRONLY;
  int a = fd_alloc(caller, 3);
  if (a < 0) return -1;
  fd_install(caller, a, r, false, OWN_USER);
  int b = fd_alloc(caller, 3);
  if (b < 0) { fd_close(caller, a); return -1; }
  fd_install(caller, b, wr, false, OWN_USER);
  fds[0] = a; fds[1] = b;
  return 0;
}

int Kernel::user_open(const char *path, int flags, int min_fd) {
  int err = 0;
  int n = vfs_lookup(caller->cwd, path, &err);
  if (n < 0) return -1;
  int fd = fd_alloc(caller, min_fd);
  if (fd < 0) return -1;
  OFD *o = ofd_new(vfs[(size_t) n].kind == VNode::DEVNULL ? OFD::NUL : OFD::FILE);
  o->vnode = n;
  o->acc = flags & O_ACCMODE;
  fd_install(caller, fd, o, (flags & O_CLOEXEC) != 0, OWN_USER);
  return fd;
}

int Kernel::user_open_at(int fd, OFD::K kind) {
  OFD *o = ofd_new(kind);
  o->acc = O_RDWR;
  if (fdent(caller, fd)) fd_close(caller, fd);
  fd_install(caller, fd, o, false, OWN_USER);
  return fd;
}

void Kernel::user_close(int fd) { fd_close(caller, fd); }

const void *Kernel::file_new(int fd) {
  // a fake FILE*: only ever handed to fileno()
  char *cookie = new char[1];
  files[cookie] = fd;
  return cookie;
}

uint8_t Kernel::byte_at(int child_uid, int stream, uint64_t off) const {
  uint64_t x = off * 0x9e3779b97f4a7c15ull + (uint64_t) child_uid * 0xbf58476d1ce4e5b9ull + (uint64_t) stream * 0x94d049bb133111ebull + salt;
  x ^= x >> 29; x *= 0xbf58476d1ce4e5b9ull; x ^= x >> 32;
  uint8_t b = (uint8_t) x;
  return b ? b : 1;  // never NUL: the C string sink accumulates C strings
}

// ------------------------------------------------------------------ log
static inline void mix(uint64_t &h, uint64_t v) { h = (h ^ v) * 1099511628211ull; h ^= h >> 29; }

void Kernel::logrec(Kind k, int64_t a, int64_t b, int64_t c, int64_t res, int err, uint8_t flags) {
  Rec r;
  r.seq = seq++;
  r.t_ns = now_ns;
  r.tid = cur ? (int16_t) cur->tid : (int16_t) -1;
  Proc *p = curproc();
  r.pid = cur ? (p ? p->pid : 0) : 0;
  r.op = cur ? cur->op : -1;
  r.kind = k;
  if (cur && cur->child) flags |= RF_CHILD;
  if (cur && (cur->api_depth == 0 || cur->in_callback)) flags |= RF_HARNESS;
  r.flags = flags;
  r.a = a; r.b = b; r.c = c; r.res = res; r.err = err;
  mix(log_hash, (uint64_t) r.t_ns);
  mix(log_hash, ((uint64_t) (uint16_t) r.tid << 48) ^ ((uint64_t) (uint32_t) r.pid << 16) ^ ((uint64_t) r.kind << 8) ^ r.flags);
  mix(log_hash, (uint64_t) r.op);
  mix(log_hash, (uint64_t) a); mix(log_hash, (uint64_t) b); mix(log_hash, (uint64_t) c);
  mix(log_hash, (uint64_t) res); mix(log_hash, (uint64_t) err);
  if (keep_log) log.push_back(r);
}

std::string Kernel::render_log(size_t from, size_t to) const {
  std::string out;
  char buf[256];
  for (size_t i = from; i < log.size() && i < to; i++) {
    const Rec &r = log[i];
    snprintf(buf, sizeof buf, "%6u t=%9.3fms T%d pid=%-4d op=%-3d %-13s a=%lld b=%lld c=%lld -> %lld%s%s%s%s%s\n", r.seq,
             (double) r.t_ns / 1e6, r.tid, r.pid, r.op, kind_name[r.kind], (long long) r.a, (long long) r.b, (long long) r.c,
             (long long) r.res, r.err ? " errno=" : "", r.err ? strerror(r.err) : "", r.flags & RF_INJECTED ? " [injected]" : "",
             r.flags & RF_CHILD ? " [child-side]" : "", r.flags & RF_HARNESS ? " [harness]" : "");
    out += buf;
  }
  return out;
}

Fault *Kernel::fault_for(Kind k) {
  Thread *t = cur;
  if (!t || t->api_depth == 0 || t->in_callback || faults.empty()) return nullptr;
  bool side = t->child != nullptr;
  uint32_t n = t->ncalls[side][k];
  for (auto &f : faults) {
    if (f.fired || f.op != t->op || f.kind != k || f.child != side || (uint32_t) f.nth != n) continue;
    f.fired = true;
    fired_by_kind[k]++;
    return &f;
  }
  return nullptr;
}

void api_begin(Thread *t, int op, int handle, int expect_uid) {
  t->op = op;
  t->handle = handle;
  t->expect_uid = expect_uid;
  t->api_depth = 1;
  t->in_callback = false;
  memset(t->ncalls, 0, sizeof t->ncalls);
  t->op_calls = 0;
  t->op_read_bytes = 0;
  t->op_parked = false;
  t->op_parked_ns = 0;
}

void api_end(Thread *t) { t->api_depth = 0; }

}  // namespace simk
