// Minimal stackful coroutines with "stack snapshot" support.
//
// A simulated caller thread is a coroutine on its own mmap'ed stack. The
// scheduler runs on the main stack. Context switches are a hand-written
// register save/restore (no signal-mask syscall, nothing for a sanitizer to
// intercept); ASan and TSan are told about every switch through their fiber
// annotations.
//
// The snapshot facility is what makes fork() return twice inside one process:
// coro_snapshot() copies the live part of a suspended coroutine's stack (and,
// under ASan, the matching shadow bytes); the coroutine is then resumed as the
// "child"; when the child phase is over coro_restore() puts the bytes back and
// the coroutine is resumed again from the very same point as the "parent".
#pragma once
#include <cstddef>
#include <cstdint>
#include <vector>

struct Coro {
  void *sp = nullptr;          // saved stack pointer while suspended
  char *stack = nullptr;       // lowest address of the stack mapping
  size_t stack_size = 0;
  void (*fn)(void *) = nullptr;
  void *arg = nullptr;
  bool started = false;
  bool done = false;
  int saved_errno = 0;
  void *tsan_fiber = nullptr;  // TSan fiber handle (tsan lane only)
  int id = 0;
};

struct CoroSnapshot {
  void *sp = nullptr;
  std::vector<uint8_t> bytes;   // [sp - REDZONE, top)
  std::vector<uint8_t> shadow;  // ASan shadow of the same range
  bool valid = false;
};

Coro *coro_create(void (*fn)(void *), void *arg, size_t stack_size = 256 * 1024);
void coro_destroy(Coro *c);
// Scheduler -> coroutine. Returns when the coroutine yields or finishes.
void coro_resume(Coro *c);
// Coroutine -> scheduler.
void coro_yield();
// Coroutine -> scheduler, never to be resumed at this point (child phase end).
void coro_abandon();
Coro *coro_current();  // nullptr on the scheduler stack

void coro_snapshot(Coro *c, CoroSnapshot *s);
void coro_restore(Coro *c, const CoroSnapshot *s);

// TSan fiber helpers (no-ops outside the tsan lane).
void coro_tsan_sync_next_switch(bool sync);
void *coro_tsan_child_fiber_begin(Coro *c);    // gives the coroutine a fresh TSan fiber for the fork child phase; returns the previous one
void coro_tsan_child_fiber_end(Coro *c, void *prev);
void coro_tsan_pad();                          // pads TSan's shadow call stack (the child phase returns out of frames it never entered)
void coro_tsan_release(void *addr);            // happens-before edges the plan itself implies (thread start, join)
void coro_tsan_acquire(void *addr);
void coro_tsan_ignore(bool on);                // fork child phase: its memory accesses belong to another process
bool coro_selftest();
void coro_raw_copy(void *dst, const void *src, size_t n);  // uninstrumented copy (sanitizer redzones included)
