#include "coro.hpp"

#include <cerrno>
#include <cstdio>
#include <cstdlib>
#include <cstring>
#include <sys/mman.h>

#if defined(__SANITIZE_ADDRESS__)
#define SIM_ASAN 1
extern "C" {
void __sanitizer_start_switch_fiber(void **fake_stack_save, const void *bottom, size_t size);
void __sanitizer_finish_switch_fiber(void *fake_stack_save, const void **bottom_old, size_t *size_old);
int __asan_address_is_poisoned(void const volatile *addr);
void __asan_poison_memory_region(void const volatile *addr, size_t size);
void __asan_unpoison_memory_region(void const volatile *addr, size_t size);
}
#define NOSAN __attribute__((no_sanitize_address, no_sanitize("undefined"), noinline))
#else
#define SIM_ASAN 0
#define NOSAN __attribute__((noinline))
#endif

#if defined(SIM_TSAN)
extern "C" {
void *__tsan_get_current_fiber(void);
void *__tsan_create_fiber(unsigned flags);
void __tsan_destroy_fiber(void *fiber);
void __tsan_switch_to_fiber(void *fiber, unsigned flags);
void __tsan_func_entry(void *pc);
}
static const unsigned kTsanNoSync = 1;  // __tsan_switch_to_fiber_no_sync
#endif

extern "C" void simk_ctx_switch(void **save_sp, void *new_sp);
asm(R"(
.text
.globl simk_ctx_switch
.type simk_ctx_switch,@function
simk_ctx_switch:
  pushq %rbp
  pushq %rbx
  pushq %r12
  pushq %r13
  pushq %r14
  pushq %r15
  movq %rsp, (%rdi)
  movq %rsi, %rsp
  popq %r15
  popq %r14
  popq %r13
  popq %r12
  popq %rbx
  popq %rbp
  ret
.size simk_ctx_switch, .-simk_ctx_switch
)");

static void *g_sched_sp = nullptr;
static Coro *g_cur = nullptr;
static const void *g_main_bottom = nullptr;
static size_t g_main_size = 0;
static int g_sched_errno = 0;
static const size_t kRedzone = 256;
#if defined(SIM_TSAN)
static void *g_sched_fiber = nullptr;
static bool g_tsan_sync = false;
#endif

Coro *coro_current() { return g_cur; }

static void coro_entry() {
  Coro *c = g_cur;
#if SIM_ASAN
  __sanitizer_finish_switch_fiber(nullptr, &g_main_bottom, &g_main_size);
#endif
  errno = 0;
  c->fn(c->arg);
  c->done = true;
  c->saved_errno = errno;
  g_cur = nullptr;
#if SIM_ASAN
  __sanitizer_start_switch_fiber(nullptr, g_main_bottom, g_main_size);
#endif
#if defined(SIM_TSAN)
  __tsan_switch_to_fiber(g_sched_fiber, 0);
#endif
  void *dummy;
  simk_ctx_switch(&dummy, g_sched_sp);
  abort();
}

static std::vector<char *> g_stack_pool;  // stacks of the default size, reused between plans

Coro *coro_create(void (*fn)(void *), void *arg, size_t stack_size) {
  Coro *c = new Coro();
  c->stack_size = stack_size;
  if (stack_size == 256 * 1024 && !g_stack_pool.empty()) {
    c->stack = g_stack_pool.back();
    g_stack_pool.pop_back();
  } else {
    c->stack = (char *) mmap(nullptr, stack_size + 8192, PROT_READ | PROT_WRITE, MAP_PRIVATE | MAP_ANONYMOUS, -1, 0);
    if (c->stack == (char *) MAP_FAILED) {
      perror("mmap");
      abort();
    }
    // guard pages at both ends
    mprotect(c->stack, 4096, PROT_NONE);
    mprotect(c->stack + 4096 + stack_size, 4096, PROT_NONE);
    c->stack += 4096;
  }
  c->fn = fn;
  c->arg = arg;
  uintptr_t top = (uintptr_t) (c->stack + stack_size);
  top &= ~(uintptr_t) 15;
  void **sp = (void **) top;
  *--sp = nullptr;               // fake return address of the entry function
  *--sp = (void *) coro_entry;   // `ret` target of the first switch
  for (int i = 0; i < 6; i++) *--sp = nullptr;
  c->sp = sp;
#if defined(SIM_TSAN)
  c->tsan_fiber = __tsan_create_fiber(0);
#endif
  return c;
}

void coro_destroy(Coro *c) {
  if (!c) return;
#if defined(SIM_TSAN)
  if (c->tsan_fiber) __tsan_destroy_fiber(c->tsan_fiber);
#endif
#if SIM_ASAN
  __asan_unpoison_memory_region(c->stack, c->stack_size);
#endif
#if defined(SIM_TSAN)
  const bool pool = false;  // TSan resets its shadow on munmap/mmap; a reused stack would look like a race with the finished fiber
#else
  const bool pool = true;
#endif
  if (pool && c->stack_size == 256 * 1024 && g_stack_pool.size() < 16) g_stack_pool.push_back(c->stack);
  else munmap(c->stack - 4096, c->stack_size + 8192);
  delete c;
}

void coro_tsan_sync_next_switch(bool sync) {
#if defined(SIM_TSAN)
  g_tsan_sync = sync;
#else
  (void) sync;
#endif
}

void coro_resume(Coro *c) {
  if (c->done) abort();
  g_sched_errno = errno;
  g_cur = c;
  c->started = true;
  errno = c->saved_errno;
#if SIM_ASAN
  void *fake = nullptr;
  __sanitizer_start_switch_fiber(&fake, c->stack, c->stack_size);
#endif
#if defined(SIM_TSAN)
  if (!g_sched_fiber) g_sched_fiber = __tsan_get_current_fiber();
  __tsan_switch_to_fiber(c->tsan_fiber, g_tsan_sync ? 0 : kTsanNoSync);
  g_tsan_sync = false;
#endif
  simk_ctx_switch(&g_sched_sp, c->sp);
#if SIM_ASAN
  __sanitizer_finish_switch_fiber(fake, nullptr, nullptr);
#endif
  errno = g_sched_errno;
}

void coro_yield() {
  Coro *c = g_cur;
  if (!c) abort();
  c->saved_errno = errno;
  g_cur = nullptr;
#if SIM_ASAN
  void *fake = nullptr;
  __sanitizer_start_switch_fiber(&fake, g_main_bottom, g_main_size);
#endif
#if defined(SIM_TSAN)
  __tsan_switch_to_fiber(g_sched_fiber, g_tsan_sync ? 0 : kTsanNoSync);
  g_tsan_sync = false;
#endif
  simk_ctx_switch(&c->sp, g_sched_sp);
  // resumed (possibly for the second time after a snapshot restore)
#if SIM_ASAN
  __sanitizer_finish_switch_fiber(fake, nullptr, nullptr);
#endif
}

void coro_abandon() {
  Coro *c = g_cur;
  if (!c) abort();
  g_cur = nullptr;
#if SIM_ASAN
  void *fake = nullptr;
  __sanitizer_start_switch_fiber(&fake, g_main_bottom, g_main_size);
#endif
#if defined(SIM_TSAN)
  __tsan_switch_to_fiber(g_sched_fiber, 0);
#endif
  void *dummy;
  simk_ctx_switch(&dummy, g_sched_sp);
  abort();
}

NOSAN static void raw_copy(void *dst, const void *src, size_t n) {
  asm volatile("rep movsb" : "+D"(dst), "+S"(src), "+c"(n) : : "memory");
}
NOSAN static void raw_zero(void *dst, size_t n) {
  asm volatile("rep stosb" : "+D"(dst), "+c"(n) : "a"(0) : "memory");
}

void coro_raw_copy(void *dst, const void *src, size_t n) { raw_copy(dst, src, n); }

static inline uint8_t *shadow_of(const void *p) {
  return (uint8_t *) (((uintptr_t) p >> 3) + 0x7fff8000ull);
}

NOSAN void coro_snapshot(Coro *c, CoroSnapshot *s) {
  char *top = c->stack + c->stack_size;
  char *lo = (char *) c->sp - kRedzone;
  if (lo < c->stack) lo = c->stack;
  lo = (char *) ((uintptr_t) lo & ~(uintptr_t) 7);
  size_t n = (size_t) (top - lo);
  s->sp = c->sp;
  s->bytes.resize(n);
  raw_copy(s->bytes.data(), lo, n);
#if SIM_ASAN
  s->shadow.resize(n / 8);
  raw_copy(s->shadow.data(), shadow_of(lo), n / 8);
#endif
  s->valid = true;
}

NOSAN void coro_restore(Coro *c, const CoroSnapshot *s) {
  char *top = c->stack + c->stack_size;
  size_t n = s->bytes.size();
  char *lo = top - n;
  raw_copy(lo, s->bytes.data(), n);
#if SIM_ASAN
  raw_copy(shadow_of(lo), s->shadow.data(), n / 8);
  // everything below the resumed stack pointer is dead: clear stale redzones
  raw_zero(shadow_of(c->stack), (size_t) (lo - c->stack) / 8);
#endif
  c->sp = s->sp;
}

#if defined(SIM_TSAN)
extern "C" void __tsan_acquire(void *addr);
extern "C" void __tsan_release(void *addr);
#endif

void *coro_tsan_child_fiber_begin(Coro *c) {
#if defined(SIM_TSAN)
  void *prev = c->tsan_fiber;
  c->tsan_fiber = __tsan_create_fiber(0);
  return prev;
#else
  (void) c;
  return nullptr;
#endif
}
void coro_tsan_child_fiber_end(Coro *c, void *prev) {
#if defined(SIM_TSAN)
  __tsan_destroy_fiber(c->tsan_fiber);
  c->tsan_fiber = prev;
#else
  (void) c; (void) prev;
#endif
}
void coro_tsan_pad() {
#if defined(SIM_TSAN)
  for (int i = 0; i < 64; i++) __tsan_func_entry(__builtin_return_address(0));
#endif
}
#if defined(SIM_TSAN)
extern "C" void AnnotateIgnoreReadsBegin(const char *f, int l);
extern "C" void AnnotateIgnoreReadsEnd(const char *f, int l);
extern "C" void AnnotateIgnoreWritesBegin(const char *f, int l);
extern "C" void AnnotateIgnoreWritesEnd(const char *f, int l);
#endif
void coro_tsan_ignore(bool on) {
#if defined(SIM_TSAN)
  if (on) { AnnotateIgnoreReadsBegin(__FILE__, __LINE__); AnnotateIgnoreWritesBegin(__FILE__, __LINE__); }
  else { AnnotateIgnoreWritesEnd(__FILE__, __LINE__); AnnotateIgnoreReadsEnd(__FILE__, __LINE__); }
#else
  (void) on;
#endif
}
void coro_tsan_release(void *addr) {
#if defined(SIM_TSAN)
  __tsan_release(addr);
#else
  (void) addr;
#endif
}
void coro_tsan_acquire(void *addr) {
#if defined(SIM_TSAN)
  __tsan_acquire(addr);
#else
  (void) addr;
#endif
}

NOSAN static uint8_t raw_shadow_byte(const void *p) { return *(volatile uint8_t *) shadow_of(p); }

bool coro_selftest() {
#if SIM_ASAN
  // the shadow mapping assumed by snapshot/restore must be the real one
  static char probe[64] __attribute__((aligned(8)));
  __asan_poison_memory_region(probe, 8);
  bool ok = raw_shadow_byte(probe) != 0 && __asan_address_is_poisoned(probe);
  __asan_unpoison_memory_region(probe, 8);
  ok = ok && raw_shadow_byte(probe) == 0;
  return ok;
#else
  return true;
#endif
}
