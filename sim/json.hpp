// Tiny JSON value (null, bool, int64, double, string, array, ordered object).
#pragma once
#include <cstdint>
#include <cstdio>
#include <cstdlib>
#include <map>
#include <string>
#include <utility>
#include <vector>

struct Json {
  enum T { NUL, BOOL, INT, DBL, STR, ARR, OBJ } t = NUL;
  bool b = false;
  int64_t i = 0;
  double d = 0;
  std::string s;
  std::vector<Json> a;
  std::vector<std::pair<std::string, Json>> o;

  Json() {}
  Json(bool v) : t(BOOL), b(v) {}
  Json(int v) : t(INT), i(v) {}
  Json(unsigned v) : t(INT), i(v) {}
  Json(long v) : t(INT), i(v) {}
  Json(long long v) : t(INT), i(v) {}
  Json(unsigned long v) : t(INT), i((int64_t) v) {}
  Json(unsigned long long v) : t(INT), i((int64_t) v) {}
  Json(double v) : t(DBL), d(v) {}
  Json(const char *v) : t(STR), s(v) {}
  Json(const std::string &v) : t(STR), s(v) {}
  static Json arr() { Json j; j.t = ARR; return j; }
  static Json obj() { Json j; j.t = OBJ; return j; }
  Json &push(const Json &v) { t = ARR; a.push_back(v); return *this; }
  Json &set(const std::string &k, const Json &v) {
    t = OBJ;
    for (auto &kv : o) if (kv.first == k) { kv.second = v; return *this; }
    o.emplace_back(k, v);
    return *this;
  }
  const Json *find(const std::string &k) const {
    for (auto &kv : o) if (kv.first == k) return &kv.second;
    return nullptr;
  }
  bool has(const std::string &k) const { return find(k) != nullptr; }
  const Json &at(const std::string &k) const {
    static Json nul;
    const Json *p = find(k);
    return p ? *p : nul;
  }
  int64_t num(const std::string &k, int64_t def = 0) const {
    const Json *p = find(k);
    if (!p) return def;
    if (p->t == INT) return p->i;
    if (p->t == BOOL) return p->b;
    if (p->t == DBL) return (int64_t) p->d;
    return def;
  }
  std::string str(const std::string &k, const std::string &def = "") const {
    const Json *p = find(k);
    return p && p->t == STR ? p->s : def;
  }
  size_t size() const { return t == ARR ? a.size() : t == OBJ ? o.size() : 0; }
  const Json &operator[](size_t k) const { return a[k]; }
  int64_t as_int() const { return t == INT ? i : t == BOOL ? b : t == DBL ? (int64_t) d : 0; }

  static void esc(const std::string &s, std::string &out) {
    out += '"';
    for (unsigned char c : s) {
      if (c == '"') out += "\\\"";
      else if (c == '\\') out += "\\\\";
      else if (c == '\n') out += "\\n";
      else if (c == '\t') out += "\\t";
      else if (c < 0x20 || c >= 0x7f) { char b[8]; snprintf(b, sizeof b, "\\u%04x", c); out += b; }
      else out += (char) c;
    }
    out += '"';
  }
  void dump(std::string &out, int ind = -1, int lvl = 0) const {
    auto nl = [&](int l) { if (ind >= 0) { out += '\n'; out.append((size_t) (l * ind), ' '); } };
    switch (t) {
      case NUL: out += "null"; break;
      case BOOL: out += b ? "true" : "false"; break;
      case INT: out += std::to_string(i); break;
      case DBL: { char bf[40]; snprintf(bf, sizeof bf, "%.6g", d); out += bf; break; }
      case STR: esc(s, out); break;
      case ARR: {
        out += '[';
        bool flat = true;
        for (auto &v : a) if (v.t == ARR || v.t == OBJ) flat = false;
        for (size_t k = 0; k < a.size(); k++) {
          if (k) out += ',';
          if (!flat) nl(lvl + 1); else if (k && ind >= 0) out += ' ';
          a[k].dump(out, ind, lvl + 1);
        }
        if (!flat && !a.empty()) nl(lvl);
        out += ']';
        break;
      }
      case OBJ: {
        out += '{';
        for (size_t k = 0; k < o.size(); k++) {
          if (k) out += ',';
          nl(lvl + 1);
          esc(o[k].first, out);
          out += ind >= 0 ? ": " : ":";
          o[k].second.dump(out, ind, lvl + 1);
        }
        if (!o.empty()) nl(lvl);
        out += '}';
        break;
      }
    }
  }
  std::string dump(int ind = -1) const { std::string r; dump(r, ind, 0); return r; }

  // ---- parser ----
  struct P {
    const char *p, *e; bool ok = true;
    void ws() { while (p < e && (*p == ' ' || *p == '\n' || *p == '\t' || *p == '\r')) p++; }
    Json val() {
      ws();
      if (p >= e) { ok = false; return Json(); }
      char c = *p;
      if (c == '{') {
        p++; Json j = Json::obj(); ws();
        if (p < e && *p == '}') { p++; return j; }
        while (ok) {
          ws(); Json k = val(); ws();
          if (k.t != STR || p >= e || *p != ':') { ok = false; break; }
          p++; Json v = val(); j.o.emplace_back(k.s, v); ws();
          if (p < e && *p == ',') { p++; continue; }
          if (p < e && *p == '}') { p++; break; }
          ok = false;
        }
        return j;
      }
      if (c == '[') {
        p++; Json j = Json::arr(); ws();
        if (p < e && *p == ']') { p++; return j; }
        while (ok) {
          Json v = val(); j.a.push_back(v); ws();
          if (p < e && *p == ',') { p++; continue; }
          if (p < e && *p == ']') { p++; break; }
          ok = false;
        }
        return j;
      }
      if (c == '"') {
        p++; Json j; j.t = STR;
        while (p < e && *p != '"') {
          if (*p == '\\' && p + 1 < e) {
            p++;
            switch (*p) {
              case 'n': j.s += '\n'; break;
              case 't': j.s += '\t'; break;
              case 'r': j.s += '\r'; break;
              case 'b': j.s += '\b'; break;
              case 'f': j.s += '\f'; break;
              case 'u': {
                if (p + 4 < e) { char h[5] = { p[1], p[2], p[3], p[4], 0 }; j.s += (char) strtol(h, nullptr, 16); p += 4; }
                break;
              }
              default: j.s += *p;
            }
            p++;
          } else j.s += *p++;
        }
        if (p >= e) ok = false; else p++;
        return j;
      }
      if (c == 't' && e - p >= 4) { p += 4; return Json(true); }
      if (c == 'f' && e - p >= 5) { p += 5; return Json(false); }
      if (c == 'n' && e - p >= 4) { p += 4; return Json(); }
      {
        const char *st = p; bool dbl = false;
        if (*p == '-') p++;
        while (p < e && ((*p >= '0' && *p <= '9') || *p == '.' || *p == 'e' || *p == 'E' || *p == '+' || *p == '-')) {
          if (*p == '.' || *p == 'e' || *p == 'E') dbl = true;
          p++;
        }
        if (p == st) { ok = false; return Json(); }
        std::string num(st, p);
        if (dbl) return Json(strtod(num.c_str(), nullptr));
        return Json((long long) strtoll(num.c_str(), nullptr, 10));
      }
    }
  };
  static bool parse(const std::string &text, Json &out) {
    P ps{ text.data(), text.data() + text.size() };
    out = ps.val();
    ps.ws();
    return ps.ok;
  }
};
