// xoshiro256** with splitmix64 seeding and named sub-streams.
#pragma once
#include <cstdint>
#include <cstring>

struct Rng {
  uint64_t s[4];
  static uint64_t splitmix(uint64_t &x) {
    uint64_t z = (x += 0x9e3779b97f4a7c15ull);
    z = (z ^ (z >> 30)) * 0xbf58476d1ce4e5b9ull;
    z = (z ^ (z >> 27)) * 0x94d049bb133111ebull;
    return z ^ (z >> 31);
  }
  explicit Rng(uint64_t seed = 1) { reseed(seed); }
  void reseed(uint64_t seed) {
    for (int i = 0; i < 4; i++) s[i] = splitmix(seed);
  }
  // independent stream derived from this seed and a name
  static Rng stream(uint64_t seed, const char *name) {
    uint64_t h = 1469598103934665603ull;
    for (const char *p = name; *p; p++) h = (h ^ (uint8_t) *p) * 1099511628211ull;
    return Rng(seed * 0x9e3779b97f4a7c15ull ^ h);
  }
  static inline uint64_t rotl(uint64_t x, int k) { return (x << k) | (x >> (64 - k)); }
  uint64_t next() {
    uint64_t r = rotl(s[1] * 5, 7) * 9, t = s[1] << 17;
    s[2] ^= s[0]; s[3] ^= s[1]; s[1] ^= s[2]; s[0] ^= s[3]; s[2] ^= t; s[3] = rotl(s[3], 45);
    return r;
  }
  // uniform in [0, n)
  uint64_t below(uint64_t n) { return n <= 1 ? 0 : next() % n; }
  int64_t range(int64_t lo, int64_t hi) { return lo + (int64_t) below((uint64_t) (hi - lo + 1)); }
  bool chance(unsigned num, unsigned den) { return below(den) < num; }
  template <class T, size_t N> T pick(const T (&a)[N]) { return a[below(N)]; }
};
