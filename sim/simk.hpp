// simk — a simulated POSIX kernel living inside the test process.
//
// reproc's objects are built from /repo and every libc entry point they use is
// renamed (objcopy --redefine-sym X=simk_X) so that it lands here.  Nothing in
// this file touches a host descriptor, process, signal or clock.
#pragma once
#include <cstdint>
#include <cstddef>
#include <map>
#include <set>
#include <string>
#include <vector>

#include "coro.hpp"
#include "rng.hpp"

namespace simk {

// ---------------------------------------------------------------- call kinds
#define SIMK_KINDS(X)                                                          \
  X(pipe) X(fcntl_getfd) X(fcntl_setfd) X(fcntl_getfl) X(fcntl_setfl)          \
  X(fcntl_other) X(read) X(write) X(poll) X(open) X(close) X(dup2) X(dup)      \
  X(fork) X(execvp) X(_exit) X(waitpid) X(kill) X(sigaction) X(sigmask)        \
  X(sigfillset) X(sigemptyset) X(getrlimit) X(getcwd) X(chdir) X(fileno)       \
  X(clock_gettime) X(malloc) X(calloc) X(realloc) X(free) X(strdup)            \
  X(close_range) X(sleep) X(getenv) X(getpid) X(api) X(sched) X(kern)

enum Kind : uint8_t {
#define X(n) K_##n,
  SIMK_KINDS(X)
#undef X
  K_COUNT
};
extern const char *const kind_name[K_COUNT];
Kind kind_from_name(const std::string &s);

// ---------------------------------------------------------------- objects
struct Pipe {
  int id = 0;
  std::vector<uint8_t> buf;  // ring
  size_t cap = 65536, head = 0, len = 0;
  int readers = 0, writers = 0;  // open file descriptions per end
  uint64_t total_w = 0, total_r = 0;
  size_t space() const { return cap - len; }
  // the ring is allocated lazily and grows up to `cap`
  void grow(size_t need) {
    size_t nsz = buf.size() ? buf.size() : 256;
    while (nsz < need && nsz < cap) nsz *= 2;
    if (nsz > cap) nsz = cap;
    std::vector<uint8_t> nb(nsz);
    for (size_t i = 0; i < len; i++) nb[i] = buf[(head + i) % buf.size()];
    buf.swap(nb);
    head = 0;
  }
  void push(uint8_t b) {
    if (len >= buf.size()) grow(len + 1);
    buf[(head + len) % buf.size()] = b;
    len++;
  }
  uint8_t pop() {
    uint8_t b = buf[head];
    head = (head + 1) % buf.size();
    len--;
    return b;
  }
};

struct OFD {  // open file description
  enum K : uint8_t { PIPE_R, PIPE_W, NUL, FILE, TTY } kind = NUL;
  int id = 0;
  Pipe *pipe = nullptr;
  int vnode = -1;
  int acc = 0;  // O_RDONLY / O_WRONLY / O_RDWR
  bool nonblock = false;
  int refs = 0;
  uint64_t written = 0;  // bytes written through this description (files)
};

enum Owner : uint8_t { OWN_NONE = 0, OWN_USER = 1, OWN_LIB = 2 };

struct FdEnt {
  OFD *ofd = nullptr;
  bool cloexec = false;
  uint8_t owner = OWN_NONE;
  int made_op = -1;  // op index that created it (library descriptors)
  int made_handle = -1;
};

struct VNode {
  enum K : uint8_t { DIR, FILE, EXEC, NOEXEC, DEVNULL } kind = DIR;
  int parent = 0;
  std::string name;
  bool writable = true;    // directories: may create entries; files: may open for writing
  bool searchable = true;  // directories
  std::map<std::string, int> kids;
};

struct FdSnap {
  int ofd_id = -1;
  uint8_t kind = 0;
  int pipe_id = -1;
  int vnode = -1;
  int acc = 0;
  bool nonblock = false;
  uint8_t owner = 0;
};

struct ExecImage {
  std::string path_arg;       // what execvp was given
  std::string path_resolved;  // candidate that matched
  int vnode = -1;
  std::vector<std::string> argv, envp;
  int cwd = 0;
  std::map<int, FdSnap> fds;  // after close-on-exec processing
  uint64_t mask = 0;
  unsigned umask_ = 022;
  uint8_t disp[65] = { 0 };   // after exec reset
  uint32_t sa_flags[65] = { 0 };  // (exec clears them all; a forked copy keeps whatever the library left)
  int64_t t_ns = 0;
  bool forked_only = false;   // fork mode: no exec happened
};

// ------------------------------------------------------------- child scripts
struct Step {
  // SPAWN: leave a descendant behind that keeps the standard descriptors in bit mask `fd` (and nothing else) open for `n` ms
  enum K : uint8_t { WRITE, READ, READ_EOF, SLEEP, CLOSE, EXIT, RAISE, ECHO, SPAWN } k = SLEEP;
  int fd = 1;
  int64_t n = 0;      // bytes / ms / code / signal
  int64_t chunk = 0;  // write chunk size
};

struct ChildSpec {
  std::vector<Step> script;
  enum Term : uint8_t { DIE, IGNORE, EXIT_AFTER, DIE_AFTER } term = DIE;
  int64_t term_delay_ms = 0;
  int term_code = 0;
  bool ignore_sigpipe = false;
};

struct SigRec { int sig; int64_t t_ns; int from_op; };

enum Disp : uint8_t { D_DFL = 0, D_IGN = 1, D_HANDLER = 2 };

struct Proc {
  enum St : uint8_t { RUNNING, DYING, ZOMBIE, REAPED, FOREIGN } st = RUNNING;
  int pid = 0, uid = 0, ppid = 0;
  std::vector<FdEnt> fds;
  int cwd = 0;
  uint64_t mask = 0;
  uint8_t disp[65] = { 0 };
  uint32_t sa_flags[65] = { 0 };
  uint64_t rlim_cur = 1024, rlim_max = 4096;
  unsigned umask_ = 022;
  int wstatus = 0;
  ExecImage *image = nullptr;
  // script task state
  const ChildSpec *spec = nullptr;
  size_t pc = 0;
  int64_t prog = 0;            // progress inside the current step
  int64_t wake_ns = 0;
  bool sleeping = false;
  int64_t term_at_ns = -1;     // pending SIGTERM consequence
  int death_sig = 0, death_code = 0; bool death_by_sig = false;
  int64_t dying_ns = -1, zombie_ns = -1, reaped_ns = -1, zombie_due_ns = -1;
  uint64_t in_off = 0;         // stdin bytes consumed
  uint64_t out_off[3] = { 0, 0, 0 };
  bool in_eof = false, in_bad = false;
  bool in_gone = false;        // the script read from a stdin it had closed itself ("end-of-file" without the pipe's end)
  std::vector<SigRec> sigs;
  int handle = -1;             // harness handle that forked it
  int start_op = -1;
  int reaps = 0;
  bool auto_reaped = false;    // collected by "somebody else" (injected ECHILD), not by a wait of the library
  bool err_merged = false;     // at image creation descriptor 2 shared the open file description of descriptor 1
  bool child_phase = false;    // still running reproc's child-side code
  bool is_caller = false;
};

// ---------------------------------------------------------------- event log
struct Rec {
  uint32_t seq;
  int64_t t_ns;
  int16_t tid;
  int32_t pid;
  int32_t op;
  uint8_t kind;
  uint8_t flags;  // 1 injected, 2 child side, 4 parked, 8 harness (not library)
  int64_t a, b, c;
  int64_t res;
  int32_t err;
};
enum { RF_INJECTED = 1, RF_CHILD = 2, RF_PARKED = 4, RF_HARNESS = 8 };

// ---------------------------------------------------------------- faults
struct Fault {
  int op = -1;        // op index (global, across threads)
  uint8_t kind = 0;   // Kind
  int nth = 1;        // n-th call of that kind inside the op on that side (1-based)
  bool child = false; // side of fork
  int err = 0;        // errno to inject; special outcomes below
  int variant = 0;    // kind specific (short write length, EINTR delay ms, ...)
  bool fired = false;
};
enum { F_SHORT = -1 /* short write / short read */, F_NULL = -2 /* allocator returns NULL */ };

// ---------------------------------------------------------------- threads
struct Thread;
typedef bool (*ReadyFn)(Thread *);

struct Thread {
  int tid = 0;
  Coro *co = nullptr;
  uint64_t mask = 0;
  Proc *child = nullptr;  // non-null while executing the child phase of a fork
  enum St : uint8_t { READY, PARKED, DONE, FORKREQ, CHILDEND } st = READY;
  // park
  ReadyFn ready = nullptr;
  int64_t park_deadline_ns = -1;
  bool timed_out = false;
  // wait condition arguments
  std::vector<struct pollfd_sim> *pfds = nullptr;
  OFD *wait_ofd = nullptr;
  size_t wait_need = 1;
  int wait_pid = 0;
  // api context
  int op = -1;            // global op index being executed, -1 outside API
  int api_depth = 0;
  bool in_callback = false;
  int handle = -1;        // handle the current op acts on (-1 none)
  int expect_uid = -1;    // simulated process the op may signal / reap
  uint32_t ncalls[2][K_COUNT];
  uint32_t op_calls = 0;
  uint64_t op_read_bytes = 0;  // bytes read() has handed to the library so far in this API call
  bool op_parked = false;
  int64_t op_parked_ns = 0;
  int next_spec = -1;     // child spec to attach at exec / fork-child end
  int fork_ret = 0;
  void *tsan_prev_fiber = nullptr;
  bool tsan_sync_resume = false;
  CoroSnapshot snap;
  void *user = nullptr;
};

struct pollfd_sim { int fd; short events; short revents; };

// ---------------------------------------------------------------- hooks
struct Hooks {
  virtual ~Hooks() {}
  virtual void on_exec(Thread *, Proc *, ExecImage *) {}
  virtual void on_child_unblock(Thread *, Proc *, uint64_t /*newly unblocked*/) {}
  virtual void on_fork_child_done(Thread *, Proc *) {}
  virtual void on_kill(Thread *, int pid, int sig, Proc *target) {}
  virtual void on_waitpid(Thread *, int pid, int options, Proc *target) {}
  virtual void on_close(Thread *, Proc *, int fd, const FdEnt *ent) {}
  virtual void on_poll(Thread *, const pollfd_sim *, size_t n, int timeout) {}
  virtual void on_poll_return(Thread *, const pollfd_sim *, size_t n, int cnt) {}
  virtual void on_park(Thread *, Kind) {}
  virtual void on_clock(Thread *, int64_t ms) {}
  virtual void on_libcall(Thread *, Kind, bool child_side) {}
  virtual void on_preempt(Thread *) {}
};

// ---------------------------------------------------------------- chooser
// Every scheduling decision and every drawn delay goes through here so that a
// run can be replayed from the recorded decision list.
struct Chooser {
  Rng rng;
  std::vector<uint32_t> rec;     // decisions taken in this run
  std::vector<uint32_t> replay;  // decisions to follow (if use_replay)
  bool use_replay = false;
  size_t pos = 0;
  uint32_t choose(uint32_t n, unsigned bias_zero_num = 0, unsigned bias_den = 1);
};

struct World {
  size_t pipe_cap = 65536;
  uint64_t rlim_cur = 64, rlim_max = 4096;
  unsigned preempt_num = 0, preempt_den = 100;  // probability of yielding at a call
  unsigned jitter_mode = 0;  // 0 none, 1 micro, 2 milli-rare
  unsigned pid_reuse = 1;    // 0 never, 1 squatter, 2 recycle
  unsigned reoccupy_num = 0; // probability (per 100) of re-occupying a descriptor number closed by the library
  unsigned zombie_gap = 1;   // 0 immediate, 1 schedulable
  int64_t clock_step_at_ms = -1;  // virtual time at which the wall clock (CLOCK_REALTIME) is stepped; -1: never
  int64_t clock_step_ms = 0;      // size of the step (signed); the monotonic clock and all timeouts are unaffected
  unsigned errno_clobber = 0;  // 1: a caller's signal handler that does not preserve errno runs when a mask restore unblocks signals
  unsigned stall_num = 0;    // per mille of pre-emptions that turn into a stall: the thread stays off the processor for 1 ms .. 2.5 s of virtual time
  unsigned core_dumps = 0;   // 1: deaths by a core-type signal carry the core-dump flag (0x80) in the wait status
  unsigned stick_pct = 50;   // probability (percent) that the task that ran last keeps running at a switch point
};

// ---------------------------------------------------------------- kernel
struct Kernel {
  World w;
  Chooser ch;
  Hooks *hooks = nullptr;
  int64_t now_ns = 0;
  int64_t epoch_ms = 1700000000000ll;
  uint32_t seq = 0;
  uint64_t log_hash = 1469598103934665603ull;
  bool keep_log = false;
  std::vector<Rec> log;
  std::vector<VNode> vfs;
  std::vector<Proc *> procs;     // all ever created, by uid
  std::vector<ChildSpec *> dyn_specs;  // scripts of descendants (owned)
  uint64_t n_descendants = 0;
  uint64_t n_stepped_reads = 0;
  uint64_t n_stalls = 0;
  uint64_t n_errno_clobbered = 0;
  std::set<int> natural_emfile_ops;  // ops during which the descriptor table really was full
  std::map<int, Proc *> by_pid;  // current pid table
  std::vector<Pipe *> pipes;
  std::vector<OFD *> ofds;
  std::vector<Thread *> threads;
  Proc *caller = nullptr;
  std::vector<ChildSpec> specs;
  std::vector<Fault> faults;
  std::map<const void *, int> files;  // FILE* registry -> fd (or -1: no descriptor)
  int next_pid = 100;
  std::vector<int> free_pids;
  uint64_t salt = 0;
  // allocator ledger
  struct Blk { size_t size; uint8_t owner; int op; bool child_freed; bool child_made; };
  std::map<void *, Blk> heap;
  // accounting
  uint64_t total_calls = 0, call_cap = 200000;
  bool capped = false;
  bool hung = false;
  std::string fatal;  // machinery problem (e.g. child phase tried to block)
  uint64_t kind_calls[K_COUNT] = { 0 };
  uint64_t fired_by_kind[K_COUNT] = { 0 };
  uint64_t switches = 0, clock_jumps = 0;
  uint64_t n_getcwd_erange = 0, n_data_at_death = 0;  // natural rare events (reach probes)
  uint64_t sched_hash = 1469598103934665603ull;
  std::vector<int> reoccupied;  // user descriptors opened by the "re-occupy" buggify action
  Thread *cur = nullptr;
  int last_task = -1;  // encoded id of the task that ran last
  // snapshot for fork child phase
  struct HeapCopy { void *p; std::vector<uint8_t> bytes; };
  std::vector<HeapCopy> heap_snap;
  char **environ_snap = nullptr;

  Kernel();
  ~Kernel();
  void reset(const World &w, uint64_t salt);

  // ---- vfs
  int vfs_add(int parent, std::string name, VNode::K kind);
  int vfs_lookup(int start, const std::string &path, int *err) const;
  std::string vfs_path(int node) const;
  int vfs_mkdirs(int start, int depth, size_t comp_len, char fill);

  // ---- processes / descriptors
  Proc *proc_new(int ppid);
  Proc *curproc() const { return cur && cur->child ? cur->child : caller; }
  FdEnt *fdent(Proc *p, int fd);
  int fd_alloc(Proc *p, int min_fd);
  int fd_install(Proc *p, int fd, OFD *o, bool cloexec, uint8_t owner);
  void fd_close(Proc *p, int fd);
  OFD *ofd_new(OFD::K kind);
  void ofd_ref(OFD *o);
  void ofd_unref(OFD *o);
  Pipe *pipe_new();
  int user_pipe(int fds[2]);                 // harness: user-owned pipe in the caller
  int user_open(const char *path, int flags, int min_fd = 3); // harness: user-owned open (by default above the standard numbers)
  int user_open_at(int fd, OFD::K kind);      // harness: place a TTY/NUL object on a specific number
  void user_close(int fd);
  const void *file_new(int fd);               // harness: fake FILE*
  uint8_t byte_at(int child_uid, int stream, uint64_t off) const;

  // ---- scheduling
  Thread *thread_new(void (*fn)(void *), void *arg);
  void run();  // run until every thread is done or the system is quiescent
  void park(Thread *t, ReadyFn ready, int64_t deadline_ns, Kind k);
  void preempt_point(Thread *t);
  void advance(int64_t ns) { now_ns += ns; }
  int64_t now_ms() const { return epoch_ms + now_ns / 1000000; }
  bool child_runnable(Proc *p);
  void child_step(Proc *p);
  void child_die(Proc *p, bool by_sig, int v);
  void child_zombify(Proc *p);
  void deliver(Proc *p, int sig, int from_op);
  void start_script(Proc *p, int spec);

  // ---- logging / faults
  void logrec(Kind k, int64_t a, int64_t b, int64_t c, int64_t res, int err, uint8_t flags = 0);
  Fault *fault_for(Kind k);
  void enter_call(Kind k);  // counts, preemption, jitter
  std::string render_log(size_t from = 0, size_t to = (size_t) -1) const;
};

extern Kernel *K;  // the one kernel of this process

// Harness-side bracket around an API call.
void api_begin(Thread *t, int op, int handle, int expect_uid);
void api_end(Thread *t);
// Fork mode: the child continuation calls this when it is done with reproc.
void child_phase_end_forkmode();

}  // namespace simk
