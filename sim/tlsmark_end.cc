// Linked immediately after reproc's objects (see tlsmark_begin.cc).
extern "C" {
__thread char simk_tls_data_end = 1;
__thread char simk_tls_bss_end;
}
