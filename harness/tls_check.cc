// C20, last clause: "Error strings come from thread-local storage".
// Coroutines share the OS thread's TLS, so this clause is decided by a miniature scenario of its own: two real
// threads, released one at a time by a baton in a seeded order, call reproc_strerror with different codes and each
// re-reads the string it was handed earlier.  No simulated kernel involved.
#include <cerrno>
#include <cstring>
#include <pthread.h>
#include <string>
#include <vector>

#include "rng.hpp"
#include "shim.hpp"

namespace {
struct Baton {
  pthread_mutex_t mu = PTHREAD_MUTEX_INITIALIZER;
  pthread_cond_t cv = PTHREAD_COND_INITIALIZER;
  int turn = -1;  // which thread may run
  size_t step = 0;
  std::vector<int> order;  // thread id per step
  std::vector<int> codes;  // error code per step
  std::string bad;
};
struct Arg { Baton *b; int id; };

void *body(void *p) {
  Arg *a = (Arg *) p;
  Baton *b = a->b;
  const char *mine = nullptr;
  std::string mine_text;
  for (;;) {
    pthread_mutex_lock(&b->mu);
    while (b->step < b->order.size() && b->order[b->step] != a->id) pthread_cond_wait(&b->cv, &b->mu);
    if (b->step >= b->order.size()) { pthread_mutex_unlock(&b->mu); break; }
    // our turn: first re-read what we were given before, then ask for a new string
    if (mine && mine_text != mine && b->bad.empty())
      b->bad = "the string returned earlier to thread " + std::to_string(a->id) + " changed from '" + mine_text + "' to '" + mine + "' after another thread called reproc_strerror";
    int code = b->codes[b->step];
    mine = shim_c.strerror_(code);
    mine_text = mine ? mine : "";
    {
      char want[512];
      want[0] = 0;
      const char *w = strerror_r(code < 0 ? -code : code, want, sizeof want);  // GNU variant: returns the message
      if (w && mine_text != w && b->bad.empty())
        b->bad = "thread " + std::to_string(a->id) + " asked for error " + std::to_string(code) + " and got '" + mine_text + "' instead of '" + w + "'";
    }
    b->step++;
    pthread_cond_broadcast(&b->cv);
    pthread_mutex_unlock(&b->mu);
  }
  return nullptr;
}
}  // namespace

// returns an empty string if the clause held for this seed
std::string tls_check(uint64_t seed) {
  Rng r = Rng::stream(seed, "tls");
  Baton b;
  static const int codes[] = { -EINVAL, -EPIPE, -ETIMEDOUT, -ENOMEM, -EAGAIN, -ENOENT, -EACCES, -EBADF, -EMFILE, -EINTR };
  size_t n = (size_t) r.range(4, 24);
  for (size_t i = 0; i < n; i++) { b.order.push_back((int) r.below(2)); b.codes.push_back(codes[r.below(10)]); }
  // make sure consecutive calls of the two threads use different codes somewhere
  b.order.push_back(0); b.codes.push_back(-EINVAL);
  b.order.push_back(1); b.codes.push_back(-EPIPE);
  b.order.push_back(0); b.codes.push_back(-ENOMEM);
  pthread_t t[2];
  Arg a[2] = { { &b, 0 }, { &b, 1 } };
  for (int i = 0; i < 2; i++) pthread_create(&t[i], nullptr, body, &a[i]);
  for (int i = 0; i < 2; i++) pthread_join(t[i], nullptr);
  return b.bad;
}
