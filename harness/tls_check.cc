// C20, last clause: "Error strings come from thread-local storage".
// Coroutines share the OS thread's TLS, so this clause is decided by a miniature scenario of its own: two real
// threads, released one at a time by a baton in a seeded order, call reproc_strerror with different codes and each
// re-reads the string it was handed earlier.  No simulated kernel involved.
#include <cerrno>
#include <cstring>
#include <pthread.h>
#include <sys/wait.h>
#include <unistd.h>
#include <string>
#include <vector>

#include "rng.hpp"
#include "shim.hpp"

namespace {
struct Baton {
  pthread_mutex_t mu = PTHREAD_MUTEX_INITIALIZER;
  pthread_cond_t cv = PTHREAD_COND_INITIALIZER;
  int turn = -1;  // which thread may run
  size_t step = 0;
  std::vector<int> order;  // thread id per step
  std::vector<int> codes;  // error code per step
  std::string bad;
};
struct Arg { Baton *b; int id; };

void *body(void *p) {
  Arg *a = (Arg *) p;
  Baton *b = a->b;
  const char *mine = nullptr;
  std::string mine_text;
  for (;;) {
    pthread_mutex_lock(&b->mu);
    while (b->step < b->order.size() && b->order[b->step] != a->id) pthread_cond_wait(&b->cv, &b->mu);
    if (b->step >= b->order.size()) { pthread_mutex_unlock(&b->mu); break; }
    // our turn: first re-read what we were given before, then ask for a new string
    if (mine && mine_text != mine && b->bad.empty())
      b->bad = "the string returned earlier to thread " + std::to_string(a->id) + " changed from '" + mine_text + "' to '" + mine + "' after another thread called reproc_strerror";
    int code = b->codes[b->step];
    mine = shim_c.strerror_(code);
    mine_text = mine ? mine : "";
    {
      char want[512];
      want[0] = 0;
      const char *w = strerror_r(code < 0 ? -code : code, want, sizeof want);  // GNU variant: returns the message
      if (w && mine_text != w && b->bad.empty())
        b->bad = "thread " + std::to_string(a->id) + " asked for error " + std::to_string(code) + " and got '" + mine_text + "' instead of '" + w + "'";
    }
    b->step++;
    pthread_cond_broadcast(&b->cv);
    pthread_mutex_unlock(&b->mu);
  }
  return nullptr;
}
}  // namespace

// Second part: the same calls without the baton.  Two threads ask for messages - known numbers and numbers libc does not
// know - as fast as they can; each checks the text it gets for the known ones.  In the tsan lane any storage the calls share
// shows up as a data race.  Runs in a forked process so that a sanitizer report ends that process, not the check.
namespace {
struct FreeArg { int id; uint64_t seed; int bad; };
void *free_body(void *p) {
  FreeArg *a = (FreeArg *) p;
  static const int codes[] = { -EINVAL, -EPIPE, -99999, -ETIMEDOUT, -4095, -ENOMEM, -1000000, -EAGAIN, -ENOENT };
  Rng r = Rng::stream(a->seed, a->id ? "free1" : "free0");
  for (int i = 0; i < 300; i++) {
    int code = codes[r.below(sizeof codes / sizeof codes[0])];
    const char *s = shim_c.strerror_(code);
    if (!s) { a->bad = 1; break; }
    if (-code < 4000) {
      char want[512];
      want[0] = 0;
      const char *w = strerror_r(-code, want, sizeof want);
      if (w && strcmp(w, s) != 0) { a->bad = 1; break; }
    }
  }
  return nullptr;
}
}  // namespace

std::string tls_free_running(uint64_t seed) {
  fflush(stdout);
  pid_t pid = fork();
  if (pid < 0) return "";
  if (pid == 0) {
    FreeArg a[2] = { { 0, seed, 0 }, { 1, seed, 0 } };
    pthread_t t[2];
    for (int i = 0; i < 2; i++) pthread_create(&t[i], nullptr, free_body, &a[i]);
    for (int i = 0; i < 2; i++) pthread_join(t[i], nullptr);
    _exit(a[0].bad || a[1].bad ? 3 : 0);
  }
  int status = 0;
  waitpid(pid, &status, 0);
  if (WIFEXITED(status) && WEXITSTATUS(status) == 0) return "";
  if (WIFEXITED(status) && WEXITSTATUS(status) == 3) return "two threads calling reproc_strerror at the same time: one of them got another message than the one for its error number";
  return "two threads calling reproc_strerror at the same time: the run ended with a sanitizer report or a crash (storage shared between the calls)";
}

// returns an empty string if the clause held for this seed
std::string tls_check(uint64_t seed) {
  Rng r = Rng::stream(seed, "tls");
  Baton b;
  static const int codes[] = { -EINVAL, -EPIPE, -ETIMEDOUT, -ENOMEM, -EAGAIN, -ENOENT, -EACCES, -EBADF, -EMFILE, -EINTR };
  size_t n = (size_t) r.range(4, 24);
  for (size_t i = 0; i < n; i++) { b.order.push_back((int) r.below(2)); b.codes.push_back(codes[r.below(10)]); }
  // make sure consecutive calls of the two threads use different codes somewhere
  b.order.push_back(0); b.codes.push_back(-EINVAL);
  b.order.push_back(1); b.codes.push_back(-EPIPE);
  b.order.push_back(0); b.codes.push_back(-ENOMEM);
  pthread_t t[2];
  Arg a[2] = { { &b, 0 }, { &b, 1 } };
  for (int i = 0; i < 2; i++) pthread_create(&t[i], nullptr, body, &a[i]);
  for (int i = 0; i < 2; i++) pthread_join(t[i], nullptr);
  return b.bad;
}
