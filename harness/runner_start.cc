// reproc_start: option construction, all-or-nothing oracle (C04), caller-state oracle (C12),
// and the invariants evaluated at the simulated exec (C03 C10 C11 C12).
#include "runner_state.hpp"

#include <cstdio>
#include <cstdlib>
#include <fcntl.h>
#include <signal.h>

extern "C" char **environ;

static std::string errn(long long r) {
  if (r >= 0) return std::to_string(r);
  return std::string("-") + strerror((int) -r);
}

static const char *redir_name(const ShimConsts &C, int t) {
  if (t == C.R_PIPE) return "pipe";
  if (t == C.R_PARENT) return "parent";
  if (t == C.R_DISCARD) return "discard";
  if (t == C.R_STDOUT) return "stdout";
  if (t == C.R_HANDLE) return "handle";
  if (t == C.R_FILE) return "file";
  if (t == C.R_PATH) return "path";
  return "default";
}

struct StartBuild {
  ShimOptions o;
  std::vector<const char *> argv, env;
  std::vector<uint8_t> input;
  std::string paths[4];
  std::vector<int> made_fds;
};

static const char *path_for(int code, std::string &store, int seq) {
  switch (code) {
    case 1: store = "/tmp/out." + std::to_string(seq); return store.c_str();
    case 2: return "/nodir/x";
    case 3: return "/ro/x";
    case 4: return "/tmp/existing";
    case 5: return "/dev/null";
  }
  return nullptr;
}

void Runner::op_start(Thread *t, int idx, const Op &op, OpRes &res) {
  Kernel *k = K;
  HState *h = op.h >= 0 && (size_t) op.h < hs.size() ? &hs[(size_t) op.h] : nullptr;
  void *hp = h ? h->p : nullptr;
  int st0 = h ? h->st : LS_NONE;
  OpCtx &cx = octx[(size_t) t->tid];
  if (op.spec < 0 || (size_t) op.spec >= plan.starts.size()) return;
  const StartSpec &s = plan.starts[(size_t) op.spec];
  StartBuild b;
  int eff[3] = { 0, 0, 0 };
  bool valid = spec_valid(s, eff);

  // ---- build the options (user-owned objects are created by the harness, outside the API)
  auto make_user_fd = [&](int stream, int kind) -> int {
    int fd = -1;
    if (kind == 1) {
      int p2[2];
      if (k->user_pipe(p2) < 0) return 0;
      fd = stream == 0 ? p2[0] : p2[1];
      user_fds.insert(p2[0]); user_fds.insert(p2[1]);
      user_ofd[p2[0]] = k->fdent(k->caller, p2[0])->ofd->id;
      user_ofd[p2[1]] = k->fdent(k->caller, p2[1])->ofd->id;
    } else {
      fd = k->user_open(kind == 3 ? "/dev/null" : "/tmp/userfile", O_RDWR);
      if (fd < 0) return 0;
      user_fds.insert(fd);
      user_ofd[fd] = k->fdent(k->caller, fd)->ofd->id;
    }
    return fd;
  };
  // a FILE* of the caller: with one of the caller's standard descriptors closed, the caller's own fopen() lands on that number
  // (a handle cannot name descriptor 0 - 0 means "unset" in the options - but a FILE* can)
  auto make_user_file_fd = [&]() -> int {
    int fd = k->user_open("/tmp/userfile", O_RDWR, ((plan.seed >> 1) & 1) ? 0 : 3);  // in half of the plans the lowest free number, as fopen() would
    if (fd < 0) return -1;
    user_fds.insert(fd);
    user_ofd[fd] = k->fdent(k->caller, fd)->ofd->id;
    return fd;
  };
  auto make_file = [&](int code) -> const void * {
    if (code == 2) return k->file_new(-1);
    if (code == 3) return stdout;  // the caller's own standard streams as FILE*: descriptor numbers 1, 2, 0
    if (code == 4) return stderr;
    if (code == 5) return stdin;
    int fd = make_user_file_fd();
    return k->file_new(fd);
  };
  const RedirSpec *rs[3] = { &s.in, &s.out, &s.err };
  ShimRedirect *ro[3] = { &b.o.in, &b.o.out, &b.o.err };
  for (int i = 0; i < 3; i++) {
    ro[i]->type = rs[i]->type;
    if (rs[i]->handle == 4 || rs[i]->handle == 5) {
      // the caller's own descriptor 1 or 2 given as a handle
      int fd = rs[i]->handle == 4 ? 1 : 2;
      ro[i]->handle = fd;
      FdEnt *e = k->fdent(k->caller, fd);
      cx.start_user_ofd[i] = e ? e->ofd->id : -1;
      cx.src_low[i] = fd;
    } else if (rs[i]->handle) { ro[i]->handle = make_user_fd(i, rs[i]->handle); cx.start_user_ofd[i] = ro[i]->handle > 0 ? user_ofd[ro[i]->handle] : -1; }
    if (rs[i]->file >= 3) {
      ro[i]->file = make_file(rs[i]->file);
      int fd = rs[i]->file == 3 ? 1 : rs[i]->file == 4 ? 2 : 0;
      FdEnt *e = k->fdent(k->caller, fd);
      cx.start_user_ofd[i] = e ? e->ofd->id : -1;
      cx.src_low[i] = fd;
    } else if (rs[i]->file) {
      ro[i]->file = make_file(rs[i]->file);
      int fd = k->files[ro[i]->file];
      cx.start_user_ofd[i] = fd >= 0 ? user_ofd[fd] : -1;
      if (fd >= 0 && fd <= 2) { cx.src_low[i] = fd; probe(P_user_file_on_low_fd); }
    }
    if (rs[i]->path) ro[i]->path = path_for(rs[i]->path, b.paths[i], ++path_seq);
  }
  b.o.parent = s.parent;
  b.o.discard = s.discard;
  if (s.file) {
    b.o.file = make_file(s.file);
    int fd = k->files[b.o.file];
    cx.start_user_ofd[1] = cx.start_user_ofd[2] = fd >= 0 ? user_ofd[fd] : -1;
  }
  if (s.path) b.o.path = path_for(s.path, b.paths[3], ++path_seq);
  b.o.env_behavior = s.env_behavior;
  if (!s.env_null) {
    for (auto &e : s.env_extra) b.env.push_back(e.c_str());
    b.env.push_back(nullptr);
    b.o.env_extra = b.env.data();
  }
  static const char *const wds[] = { nullptr, "/work", "/missing", "/tmp/existing", ".", "sub" };
  b.o.working_directory = wds[s.wd >= 0 && s.wd < 6 ? s.wd : 0];
  if (s.argv_empty) {
    b.argv.push_back(nullptr);
  } else if (!s.argv_null) {
    b.argv.push_back(prog_string(s.prog));
    for (auto &a : s.args) b.argv.push_back(a.c_str());
    b.argv.push_back(nullptr);
  }
  if (s.input_size >= 0) {
    b.input.resize((size_t) s.input_size + 1);
    for (int64_t i = 0; i < s.input_size; i++) b.input[(size_t) i] = k->byte_at(1000 + op.h, 0, (uint64_t) i);
    b.o.input = b.input.data();
    b.o.input_size = (size_t) s.input_size;
  }
  if (s.input_bad) { b.o.input = nullptr; b.o.input_size = 5; }
  memcpy(b.o.stop, s.stop, sizeof b.o.stop);
  b.o.deadline = s.deadline;
  b.o.fork = s.fork;
  b.o.nonblocking = s.nonblocking;
  b.o.clone = s.clone;

  // ---- snapshot of the caller's state (C12)
  uint64_t mask0 = t->mask;
  uint8_t disp0[65];
  memcpy(disp0, k->caller->disp, sizeof disp0);
  int cwd0 = k->caller->cwd;
  char **environ0 = environ;
  uint64_t envh0 = environ_hash();
  for (int i = 0; i < 3; i++) { FdEnt *e = k->fdent(k->caller, i); cx.parent_ofd[i] = e ? e->ofd->id : -1; }
  size_t nprocs0 = k->procs.size();
  t->next_spec = s.child;

  api_begin(t, idx, op.h, -1);
  ShimRet r = api->start(hp, s.argv_null && !s.argv_empty ? nullptr : b.argv.data(), b.o);
  // ---- fork mode: we may now be the child
  if (t->child) {
    Proc *c = t->child;
    (void) c;
    probe(P_fork_mode_child);
    long long rv = shim_norm(r);
    if (rv != 0) viol("C04", "fork-child-return", "", fmt("start returned %lld in the forked child, expected 0", rv), idx);
    // in the child only destroy may be called; everything else must be rejected (C14)
    unsigned acts = (unsigned) op.a;
    int stop0[6] = { C.S_WAIT, 0, C.S_NOOP, 0, C.S_NOOP, 0 };
    uint8_t tmp[8];
    struct { const char *n; long long v; } probes_[] = {
      { "pid", acts & 2 ? shim_norm(api->pid(hp)) : C.EINVAL_ },
      { "wait", acts & 4 ? shim_norm(api->wait(hp, 0)) : C.EINVAL_ },
      { "write", acts & 8 ? shim_norm(api->write(hp, tmp, 1)) : C.EINVAL_ },
      { "read", acts & 16 ? shim_norm(api->read(hp, C.STREAM_OUT, tmp, 1)) : C.EINVAL_ },
      { "terminate", acts & 32 ? shim_norm(api->terminate(hp)) : C.EINVAL_ },
      { "kill", acts & 64 ? shim_norm(api->kill(hp)) : C.EINVAL_ },
      { "close", acts & 128 ? shim_norm(api->close(hp, C.STREAM_IN)) : C.EINVAL_ },
      { "stop", acts & 256 ? shim_norm(api->stop(hp, stop0)) : C.EINVAL_ },
    };
    for (auto &p : probes_)
      if (p.v != C.EINVAL_)
        viol("C14", "misuse-not-rejected", fmt("op=%s/state=in-child", p.n), fmt("%s in the forked child returned %lld, expected the invalid-argument error", p.n, p.v), idx);
    // (reproc++ objects live on the C++ heap, which the simulated fork does not copy: destroy only through the C binding)
    if ((acts & 1) && plan.w.binding == 0) {
      probe(P_destroy_in_child);
      // the child opens descriptors of its own before destroying the handle: destroy must leave them alone
      int mine[3] = { -1, -1, -1 };
      int mine_ofd[3] = { -1, -1, -1 };
      for (int q = 0; q < 3; q++) {
        int fd = k->fd_alloc(t->child, 0);
        if (fd < 0) break;
        OFD *o = k->ofd_new(OFD::NUL);
        o->acc = O_RDWR;
        int sv = t->api_depth; t->api_depth = 0;
        k->fd_install(t->child, fd, o, false, OWN_USER);
        t->api_depth = sv;
        mine[q] = fd; mine_ofd[q] = o->id;
      }
      // ... and its standard streams, which are what start connected for it
      int std_ofd[3];
      for (int q = 0; q < 3; q++) { FdEnt *e = k->fdent(t->child, q); std_ofd[q] = e ? e->ofd->id : -1; }
      void *p = api->destroy(hp);
      if (p) viol("C15", "destroy-returned-non-null", "state=in-child", "reproc_destroy in the forked child did not return NULL", idx);
      for (int q = 0; q < 3; q++) {
        FdEnt *e = k->fdent(t->child, q);
        if (std_ofd[q] >= 0 && (!e || e->ofd->id != std_ofd[q])) {
          viol("C15", "destroy-in-child-closed-foreign-descriptor", fmt("stream=%d", q), fmt("the forked child's own descriptor %d was closed by reproc_destroy", q), idx);
          viol("C05", "foreign-close", "op=destroy/in-child", fmt("close(%d): reproc_destroy in the forked child closed the child's own standard stream", q), idx);
        }
      }
      for (int q = 0; q < 3; q++) {
        if (mine[q] < 0) continue;
        FdEnt *e = k->fdent(t->child, mine[q]);
        if (!e || e->ofd->id != mine_ofd[q])
          viol("C15", "destroy-in-child-closed-foreign-descriptor", "", fmt("descriptor %d opened by the forked child itself was closed by reproc_destroy", mine[q]), idx);
      }
    }
    child_phase_end_forkmode();  // never returns
  }
  api_end(t);
  res.raw = r;
  res.ret = shim_norm(r);
  res.t1_ns = k->now_ns;
  res.parked = t->op_parked;
  res.parked_ns = t->op_parked_ns;
  res.calls = t->op_calls;
  res.ran = true;
  t->op = -1;
  long long v = res.ret;

  // ---- C12: the caller is untouched on every return path
  {
    std::string sc = v < 0 ? "failure" : "success";
    // (when the very call that restores the mask is made to fail there is nothing left the library could do)
    bool restore_failed = false;
    for (auto &f : k->faults) if (f.fired && f.op == idx && f.kind == K_sigmask && !f.child && f.nth >= 2) restore_failed = true;
    if (t->mask != mask0 && !restore_failed)
      viol("C12", "signal-mask-changed", fmt("path=%s", sc.c_str()), fmt("thread signal mask was %#llx before start and is %#llx after (start returned %s)",
                                                                        (unsigned long long) mask0, (unsigned long long) t->mask, errn(v).c_str()), idx);
    if (memcmp(disp0, k->caller->disp, sizeof disp0))
      viol("C12", "dispositions-changed", fmt("path=%s", sc.c_str()), "the caller's signal dispositions differ after start", idx);
    if (k->caller->cwd != cwd0) viol("C12", "cwd-changed", fmt("path=%s", sc.c_str()), "the caller's working directory differs after start", idx);
    if (environ != environ0 || environ_hash() != envh0)
      viol("C12", "environ-changed", fmt("path=%s", sc.c_str()), "the caller's environment differs after start", idx);
  }

  // ---- find the child this call forked (if any)
  Proc *child = nullptr;
  for (size_t i = nprocs0; i < k->procs.size(); i++)
    if (k->procs[i]->start_op == idx && k->procs[i]->ppid == k->caller->pid) child = k->procs[i];
  tuple(OP_START, (uint64_t) st0, (uint64_t) (v < 0 ? -v : v), (uint64_t) (eff[0] * 64 + eff[1] * 8 + eff[2]) * 4 + (uint64_t) (s.fork * 2 + s.nonblocking));

  if (st0 == LS_NEW && h->start_failed_once && valid && v == C.EINVAL_ && k->faults.empty())
    viol("C04", "restart-after-failed-start-rejected", "", "a start failed earlier on this handle; starting it again was rejected with the invalid-argument error, so the failed start did not leave the handle not started", idx);
  if (st0 != LS_NEW) {
    if (v != C.EINVAL_)
      viol("C14", "misuse-not-rejected", fmt("op=start/state=%s", st0 == LS_NONE ? "null" : st0 == LS_RUNNING ? "running" : "exited"),
           fmt("start on a handle that is not in the not-started state returned %s", errn(v).c_str()), idx);
    if (child) viol("C14", "start-twice-forked", "", "a second start on a started handle created a process", idx);
    return;
  }
  if (!valid) {
    if (v >= 0) viol("C14", "invalid-options-accepted", "", fmt("start with an invalid option set returned %lld", v), idx);
    if (child && child->st != Proc::REAPED) viol("C04", "child-left-behind", "why=invalid-options", "start failed but a child process exists", idx);
    if (v < 0) h->start_failed_once = true;
    return;
  }

  // ---- which injected failure (if any) must surface
  int want_err = 0;
  bool fault_seen = false, fault_ignorable = false;
  const Fault *first = nullptr;
  std::set<int> fault_errs;  // with several faults any of them may be the one that surfaces
  for (auto &f : k->faults) {
    if (!f.fired || f.op != idx) continue;
    fault_seen = true;
    int e = f.err == F_NULL ? ENOMEM : f.err;
    // documented to be ignored (close), retried (getcwd ERANGE, EINTR on the error pipe / reaping) or to fall back (fileno EBADF on a parent stream)
    bool ignorable = f.kind == K_close || (f.kind == K_sigaction && f.err == EINVAL) || (f.kind == K_getcwd && f.err == ERANGE) ||
                     (f.kind == K_fileno && f.err == EBADF) || f.err == F_SHORT || (f.err == EINTR && !f.child && (f.kind == K_read || f.kind == K_waitpid)) ||
                     (!f.child && f.kind == K_sigmask && f.nth >= 2);
    if (e > 0) fault_errs.insert(e);
    if (ignorable) { fault_ignorable = true; continue; }
    if (!first) first = &f;
  }
  if (first) want_err = first->err == F_NULL ? ENOMEM : first->err;
  if (fault_seen) { if (first && first->child) probe(P_fault_child); else probe(P_fault_parent); }

  // naturally arising failures
  std::set<int> natural;
  if (!s.fork) {
    if (s.prog == 4 || s.prog == 7 || s.prog == 8) natural.insert(ENOENT);
    if (s.prog == 5 || s.prog == 6) natural.insert(EACCES);
  }
  if (s.wd == 2) natural.insert(ENOENT);
  if (s.wd == 3) natural.insert(ENOTDIR);
  int pcodes[4] = { s.in.path, s.out.path, s.err.path, s.path };
  for (int pc : pcodes) { if (pc == 2) natural.insert(ENOENT); if (pc == 3) natural.insert(EACCES); }
  int fcodes[4] = { s.in.file, s.out.file, s.err.file, s.file };
  for (int fc : fcodes) if (fc == 2) natural.insert(EBADF);
  if (s.input_size > 0 && (uint64_t) s.input_size > k->w.pipe_cap) { natural.insert(EAGAIN); probe(P_input_gt_cap); }
  // the caller handed over one of its own descriptors 0-2 (as handle or FILE) that is not open: an unusable redirect target
  for (int i = 0; i < 3; i++) if (cx.src_low[i] >= 0 && cx.parent_ofd[cx.src_low[i]] < 0) natural.insert(EBADF);
  if (!s.fork || true) { if (k->caller->rlim_cur - 1 > 1024 * 1024) natural.insert(EMFILE); }
  // the descriptor table really was full at some call of this start (small limits, other handles, squatters)
  if (k->natural_emfile_ops.count(idx)) natural.insert(EMFILE);
  // deep working directory: the absolute program path can exceed PATH_MAX
  bool beyond_pathmax = false;
  if (!s.fork && s.wd != 0 && (s.prog == 1 || s.prog == 2 || s.prog == 9 || s.prog == 10)) {
    size_t len = k->vfs_path(cwd_node).size() + 10;
    if (len >= 4096) { natural.insert(ENAMETOOLONG); beyond_pathmax = true; }
  }
  (void) beyond_pathmax;

  if (v < 0) {
    probe(P_start_failed);
    h->start_failed_once = true;
    // nothing may be left behind
    if (child && child->st != Proc::REAPED)
      viol("C04", "child-left-behind", fmt("child=%s/fault=%s@%s", child->st == Proc::RUNNING ? "running" : "zombie", first ? kind_name[first->kind] : "none", first ? (first->child ? "child" : "parent") : "-"),
           fmt("start returned %s but the child it forked (pid %d) is still %s", errn(v).c_str(), child->pid,
               child->st == Proc::RUNNING ? "running" : "an unreaped zombie"), idx);
    for (size_t fd = 0; fd < k->caller->fds.size(); fd++) {
      FdEnt &e = k->caller->fds[fd];
      if (e.ofd && e.owner == OWN_LIB && e.made_op == idx)
        viol("C05", "descriptor-leak", "made-by=start/at=failed-start/" + fault_tag(idx), fmt("descriptor %zu opened by the failed start is still open", fd), idx);
    }
    // the cause
    if (want_err) {
      if (v != -want_err && !natural.count((int) -v) && !fault_errs.count((int) -v))
        viol("C04", "wrong-error", fmt("fault=%s/side=%s", kind_name[first->kind], first->child ? "child" : "parent"),
             fmt("%s was made to fail with %s on the %s side but start returned %s", kind_name[first->kind], strerror(want_err),
                 first->child ? "child" : "parent", errn(v).c_str()), idx);
    } else if (!natural.empty()) {
      if (!natural.count((int) -v) && !fault_errs.count((int) -v))
        viol("C04", "wrong-error", "cause=unexecutable-input", fmt("start returned %s, expected one of the natural causes (first: %s)", errn(v).c_str(),
                                                                   strerror(*natural.begin())), idx);
    } else if (!fault_ignorable && !s.fork && (s.prog == 1 || s.prog == 2 || s.prog == 9 || s.prog == 10) && (v == -ENOENT || v == -EACCES || v == -ENOTDIR)) {
      viol("C03", "relative-program-not-found", fmt("prog=%s/wd=%d", s.prog == 9 ? "../<cwd>/prog" : prog_string(s.prog), s.wd),
           fmt("'%s' exists relative to the parent's working directory but start returned %s", s.prog == 9 ? "../<cwd>/prog" : prog_string(s.prog), errn(v).c_str()), idx);
    } else if (!fault_ignorable && !fault_seen && (s.wd == 1 || s.wd == 4 || s.wd == 5) && (v == -ENOTDIR || v == -ENOENT || v == -EACCES || v == -EBADF) &&
               (s.fork || s.prog == 0)) {
      // the requested working directory exists and can be entered, the program does not depend on it
      viol("C03", "working-directory-not-entered", fmt("wd=%d/low-fds=%d", s.wd, plan.w.low_fds),
           fmt("start returned %s although the requested working directory exists and the program is executable", errn(v).c_str()), idx);
    } else if (!fault_ignorable) {
      // a valid, executable configuration failed: the stream set-up cannot deliver what the options ask for
      int low = plan.w.low_fds;
      viol("C10", "valid-configuration-failed", fmt("in=%s/out=%s/err=%s/low-fds=%d", redir_name(C, eff[0]), redir_name(C, eff[1]), redir_name(C, eff[2]), low),
           fmt("start returned %s for a valid configuration without any injected failure", errn(v).c_str()), idx);
    } else if (!fault_errs.count((int) -v)) {
      viol("C04", "ignorable-failure-not-ignored", fmt("fault=%s", "close-or-retry"), fmt("start returned %s after a failure it is documented to ignore or retry", errn(v).c_str()), idx);
    }
    return;
  }

  // ---- success
  probe(P_start_ok);
  if (!child || child->pid <= 0) {
    viol("C04", "success-without-child", fmt("fault=%s", first ? kind_name[first->kind] : "none"),
         fmt("start returned %lld but no child process was created%s", v, first ? " (an injected failure was swallowed)" : ""), idx);
    // keep the model usable: the library believes it is running
    h->st = LS_RUNNING; h->spec = op.spec; h->uid = -1; h->pid = -1; h->start_op = idx;
    return;
  }
  if (!s.fork && (!child->image || child->image->forked_only)) {
    viol("C04", "success-without-exec", fmt("fault=%s", first ? kind_name[first->kind] : "none"),
         fmt("start reported success but the program was never executed (child is %s)", child->st == Proc::RUNNING ? "running" : "dead"), idx);
  }
  if (s.fork && !child->image) {
    // fork mode: success means the forked copy came back out of start; a copy that hit a failure reports it and exits
    viol("C04", "success-without-exec", fmt("mode=fork/fault=%s", first ? kind_name[first->kind] : "none"),
         fmt("start reported success in fork mode but the forked copy never returned from start (child is %s)", child->st == Proc::RUNNING ? "running" : "dead"), idx);
  }
  if (want_err && first && !(first->kind == K_read && !first->child)) {
    // a failing call the launch depends on was swallowed, yet the child runs: tolerated only if the program really runs as requested
  }
  if (!natural.empty() && child->image && !child->image->forked_only && !s.fork) {
    viol("C04", "unexecutable-input-succeeded", "", "start reported success for an input that cannot be executed as requested", idx);
  }
  for (auto &oh : hs) if (&oh != h && oh.st != LS_NONE && oh.pid == child->pid) probe(P_pid_reused_live_handle);
  h->st = LS_RUNNING;
  h->spec = op.spec;
  h->uid = child->uid;
  h->pid = child->pid;
  h->start_op = idx;
  memcpy(h->eff, eff, sizeof eff);
  for (int i = 0; i < 3; i++) { h->piped[i] = eff[i] == C.R_PIPE; h->open_[i] = h->piped[i]; }
  if (s.input_size >= 0) { h->open_[0] = false; h->in_closed = true; h->wr_off = (uint64_t) s.input_size; }
  h->nonblocking = s.nonblocking;
  h->forkmode = s.fork;
  h->merged_err = eff[2] == C.R_STDOUT;
  h->deadline = s.deadline;
  memcpy(h->stop, s.stop, sizeof h->stop);
  if (s.deadline > 0) {
    h->dl_lo_ms = ms(res.t0_ns) + s.deadline;
    h->dl_hi_ms = ms(res.t1_ns) + s.deadline;
    if (cx.last_clock_ms >= 0) h->dl_lo_ms = h->dl_hi_ms = cx.last_clock_ms + s.deadline;
  }
  // pipes as seen from the child image
  if (child->image) {
    ExecImage *img = child->image;
    for (int i = 0; i < 3; i++) { auto it = img->fds.find(i); if (it != img->fds.end() && h->piped[i]) h->pipe_id[i] = it->second.pipe_id; }
    for (auto &kv : img->fds) {
      if (kv.first <= 2 || kv.second.kind != OFD::PIPE_W) continue;
      bool is_stream = false;
      for (int i = 0; i < 3; i++) if (img->fds.count(i) && img->fds[i].pipe_id == kv.second.pipe_id) is_stream = true;
      if (!is_stream && h->pipe_id[3] < 0) h->pipe_id[3] = kv.second.pipe_id;
    }
  }
  if (s.input_size >= 0 && h->pipe_id[0] >= 0) {
    Pipe *ip = pipe_by_id(h->pipe_id[0]);
    if (ip && ip->total_w != (uint64_t) s.input_size)
      viol("C17", "input-not-delivered-completely", fmt("size-vs-capacity=%s", (uint64_t) s.input_size > k->w.pipe_cap ? "above" : "within"),
           fmt("start succeeded with %lld bytes of start-up input but only %llu reached the child's stdin pipe", (long long) s.input_size, (unsigned long long) ip->total_w), idx);
    if (ip && ip->writers > 0)
      viol("C02", "no-eof-after-input", "", "start-up input was supplied but the child's stdin still has a writer after start", idx);
  }
  long long pidv = shim_norm(api->pid(hp));
  if (pidv != child->pid) viol("C04", "pid-mismatch", "", fmt("reproc_pid returned %lld, the child has pid %d", pidv, child->pid), idx);
  // the parent holds a pipe end exactly for piped streams (behavioural cross-check happens through read/write ops)
  for (int i = 0; i < 3; i++) {
    if (!h->piped[i] || s.input_size >= 0) continue;
    Pipe *pp = pipe_by_id(h->pipe_id[i]);
    if (!pp) continue;
    bool found = false;
    for (size_t fd = 0; fd < k->caller->fds.size(); fd++) {
      FdEnt &e = k->caller->fds[fd];
      if (e.ofd && e.ofd->pipe == pp && e.owner == OWN_LIB && e.ofd->kind == (i == 0 ? OFD::PIPE_W : OFD::PIPE_R)) found = true;
    }
    if (!found) viol("C10", "parent-end-missing", fmt("stream=%d", i), fmt("stream %d is a pipe but the parent holds no end of it after start", i), idx);
  }
}

// ------------------------------------------------------------------ invariants at exec
void Runner::on_fork_child_done(Thread *t, Proc *c) { check_image(t, c, c->image); }
void Runner::on_exec(Thread *t, Proc *c, ExecImage *img) { probe(P_exec_seen); check_image(t, c, img); }

void Runner::check_image(Thread *t, Proc *c, ExecImage *img) {
  Kernel *k = K;
  int idx = t->op;
  const Op &op = plan.ops[(size_t) idx];
  if (op.spec < 0 || (size_t) op.spec >= plan.starts.size()) return;
  const StartSpec &s = plan.starts[(size_t) op.spec];
  OpCtx &cx = octx[(size_t) t->tid];
  int eff[3];
  if (!spec_valid(s, eff)) {
    viol("C14", "invalid-options-executed", "", "a program was executed for an invalid option set", idx);
    return;
  }
  bool forked = img->forked_only;
  // ---- C12: clean signal state
  if (img->mask != 0)
    viol("C12", "child-mask-not-empty", fmt("mode=%s", forked ? "fork" : "exec"), fmt("the child starts with signal mask %#llx", (unsigned long long) img->mask), idx);
  for (int sg = 1; sg < 32; sg++) {
    if (img->disp[sg] != D_DFL) {
      viol("C12", "child-disposition-not-default", fmt("was=%s", img->disp[sg] == D_IGN ? "ignored" : "handled"),
           fmt("signal %d is %s in the child", sg, img->disp[sg] == D_IGN ? "ignored" : "handled"), idx);
      break;
    }
  }
  for (int sg = 1; sg < 32; sg++) {  // (the library resets the classic signals 1-31, as for the dispositions above)
    if (sg == SIGKILL || sg == SIGSTOP) continue;
    if (img->sa_flags[sg] != 0) {
      viol("C12", "child-disposition-flags-kept", fmt("mode=%s", forked ? "fork" : "exec"),
           fmt("signal %d keeps the caller's sa_flags %#x in the child (SA_NOCLDWAIT, SA_RESTART, SA_SIGINFO ... belong to the caller's handlers)", sg, img->sa_flags[sg]), idx);
      break;
    }
  }
  // ---- process-wide state another thread's start may have touched (C20): the file mode creation mask
  if (img->umask_ != 022)
    viol("C20", "cross-talk-umask", "", fmt("the child starts with umask %03o, the caller's is 022: process-wide state changed inside another start leaked into this child", img->umask_), idx);
  // ---- C03: argv / env / cwd / program
  if (!forked) {
    std::vector<std::string> want_argv;
    want_argv.push_back(prog_string(s.prog));
    for (auto &a : s.args) want_argv.push_back(a);
    if (img->argv != want_argv) {
      size_t i = 0;
      while (i < img->argv.size() && i < want_argv.size() && img->argv[i] == want_argv[i]) i++;
      viol("C03", "argv-differs", "", fmt("argument %zu differs (got %zu arguments, expected %zu)", i, img->argv.size(), want_argv.size()), idx);
    }
    // program resolution: relative paths are relative to the parent's directory
    int want_node = -1;
    switch (s.prog) {
      case 0: want_node = n_prog_bin; break;
      case 1: want_node = n_prog_cwd; break;
      case 2: want_node = n_prog_sub; break;
      case 9: want_node = n_prog_cwd; break;
      case 10: want_node = n_prog_hidden; break;
      default: want_node = -2; break;  // PATH search / failing cases: decided below
    }
    if (want_node >= 0 && img->vnode != want_node)
      viol("C03", "wrong-program-resolved", fmt("prog=%s/wd=%d", s.prog == 9 ? "../<cwd>/prog" : prog_string(s.prog), s.wd),
           fmt("'%s' was resolved to %s instead of %s", prog_string(s.prog), k->vfs_path(img->vnode).c_str(), k->vfs_path(want_node).c_str()), idx);
  }
  {
    std::vector<std::string> want_env;
    if (s.env_behavior == C.ENV_EXTEND) for (auto &e : plan.w.parent_env) want_env.push_back(e);
    if (!s.env_null) for (auto &e : s.env_extra) want_env.push_back(e);
    if (img->envp != want_env) {
      size_t i = 0;
      while (i < img->envp.size() && i < want_env.size() && img->envp[i] == want_env[i]) i++;
      viol("C03", "environment-differs", fmt("behavior=%s", s.env_behavior == C.ENV_EXTEND ? "extend" : "empty"),
           fmt("environment entry %zu differs (got %zu entries, expected %zu)", i, img->envp.size(), want_env.size()), idx);
    }
    if (!forked && s.prog == 3) {
      // bare name: looked up through PATH of the environment the child was given
      std::string path = "/bin:/usr/bin";
      for (auto &e : want_env) if (e.compare(0, 5, "PATH=") == 0) { path = e.substr(5); break; }
      int want = -1;
      size_t i = 0;
      for (;;) {
        size_t j = path.find(':', i);
        std::string d = path.substr(i, j == std::string::npos ? std::string::npos : j - i);
        int err = 0;
        int n = k->vfs_lookup(img->cwd, d.empty() ? "prog" : d + "/prog", &err);
        if (n >= 0 && k->vfs[(size_t) n].kind == VNode::EXEC) { want = n; break; }
        if (j == std::string::npos) break;
        i = j + 1;
      }
      if (want >= 0 && img->vnode != want)
        viol("C03", "wrong-program-resolved", "prog=PATH", fmt("PATH search found %s instead of %s", k->vfs_path(img->vnode).c_str(), k->vfs_path(want).c_str()), idx);
    }
  }
  {
    int want_cwd = cwd_node;
    int err = 0;
    switch (s.wd) {
      case 1: want_cwd = work_node; break;
      case 5: want_cwd = k->vfs_lookup(cwd_node, "sub", &err); break;
      default: break;
    }
    if (img->cwd != want_cwd)
      viol("C03", "wrong-working-directory", fmt("wd=%d", s.wd), fmt("the child runs in %s instead of %s", k->vfs_path(img->cwd).c_str(), k->vfs_path(want_cwd).c_str()), idx);
  }
  // ---- C10: stdin/stdout/stderr connected exactly where the options say
  for (int i = 0; i < 3; i++) {
    auto it = img->fds.find(i);
    std::string sg = fmt("stream=%d/type=%s/low-fds=%d", i, redir_name(C, eff[i]), plan.w.low_fds);
    if (cx.src_low[i] >= 0) sg += fmt("/src=fd%d", cx.src_low[i]);  // the caller supplied its own descriptor 0-2 as handle/FILE
    if (it == img->fds.end()) { viol("C10", "stream-closed", sg, fmt("descriptor %d is closed in the child", i), idx); continue; }
    const FdSnap &f = it->second;
    int want_acc = i == 0 ? O_RDONLY : O_WRONLY;
    auto wrong = [&](const std::string &why) { viol("C10", "stream-misconnected", sg, fmt("stream %d: %s", i, why.c_str()), idx); };
    if (eff[i] == C.R_PIPE) {
      if (f.kind != (i == 0 ? OFD::PIPE_R : OFD::PIPE_W)) { wrong("not the expected end of a pipe"); continue; }
      Pipe *pp = pipe_by_id(f.pipe_id);
      bool parent_has = false;
      for (size_t fd = 0; fd < k->caller->fds.size(); fd++) {
        FdEnt &e = k->caller->fds[fd];
        if (e.ofd && e.ofd->pipe == pp && e.owner == OWN_LIB && e.ofd->kind == (i == 0 ? OFD::PIPE_W : OFD::PIPE_R)) parent_has = true;
      }
      bool input_consumed = i == 0 && s.input_size >= 0;
      if (!parent_has && !input_consumed) wrong("the other end of the pipe is not held by the parent");
      if (f.nonblock) viol("C17", "child-end-nonblocking", fmt("stream=%d", i), "the child's end of the pipe is in nonblocking mode", idx);
    } else if (eff[i] == C.R_PARENT) {
      if (cx.parent_ofd[i] >= 0) { if (f.ofd_id != cx.parent_ofd[i]) wrong("not the parent's corresponding stream"); }
      else if (f.kind != OFD::NUL) wrong("the parent has no such stream, expected the null device");
      else if (f.acc != want_acc && f.acc != O_RDWR) wrong("the null device standing in for the parent's missing stream is opened in the wrong direction");
    } else if (eff[i] == C.R_DISCARD) {
      if (f.kind != OFD::NUL) wrong("not the null device");
      else if (f.acc != want_acc && f.acc != O_RDWR) wrong("null device opened in the wrong direction");
    } else if (eff[i] == C.R_STDOUT) {
      auto o1 = img->fds.find(1);
      if (o1 == img->fds.end() || o1->second.ofd_id != f.ofd_id) wrong("stderr is not the child's stdout");
    } else if (eff[i] == C.R_HANDLE || eff[i] == C.R_FILE) {
      auto e = cx.start_user_ofd.find(i);
      if (e != cx.start_user_ofd.end() && e->second >= 0 && f.ofd_id != e->second) wrong("not the handle/FILE given in the options");
    } else if (eff[i] == C.R_PATH) {
      if (f.kind != OFD::FILE && f.kind != OFD::NUL) wrong("not a file opened from the given path");
      else if (f.acc != want_acc) wrong("path opened in the wrong direction");
    }
  }
  // ---- C11: nothing else is inherited.  The forked copy of fork mode never execs, so close-on-exec descriptors (its own
  // redirect sources) stay; what it must not hold are the library's descriptors of *other* handles (their pipes would never
  // report end-of-file while this child lives).
  if (forked) {
    // (a caller that names one of its own closed descriptors 0-2 as a redirect target gets whatever happens to have that
    // number at the time - possibly another thread's pipe: its own mistake, not an inheritance)
    // With descriptors 0-2 of a multi-threaded caller closed, another thread's freshly made pipe transiently *is* "the
    // parent's stdin" for a PARENT redirect: which object the numbers 0-2 name is then ambiguous, so the rule is applied in
    // worlds where the caller's standard descriptors are open.
    bool closed_source = plan.w.low_fds != 7;
    for (int i = 0; i < 3; i++) if (cx.src_low[i] >= 0 && cx.parent_ofd[cx.src_low[i]] < 0) closed_source = true;
    for (auto &kv : img->fds) {
      if (closed_source) break;
      if (kv.first <= 2 || kv.second.owner != OWN_LIB) continue;
      for (size_t fd = 0; fd < k->caller->fds.size(); fd++) {
        FdEnt &e = k->caller->fds[fd];
        if (e.ofd && e.ofd->id == kv.second.ofd_id && e.owner == OWN_LIB && e.made_handle >= 0 && e.made_handle != op.h) {
          viol("C11", "descriptor-inherited", "owner=library/of=another-handle/mode=fork",
               fmt("the forked child holds descriptor %d, which the library opened for handle %d", kv.first, e.made_handle), idx);
          break;
        }
      }
    }
  } else {
    int extra = 0, exitfd = -1;
    for (auto &kv : img->fds) {
      if (kv.first <= 2) continue;
      extra++;
      bool is_exit = kv.second.kind == OFD::PIPE_W;
      if (is_exit) {
        Pipe *pp = pipe_by_id(kv.second.pipe_id);
        bool parent_reads = false;
        for (size_t fd = 0; fd < k->caller->fds.size(); fd++) {
          FdEnt &e = k->caller->fds[fd];
          if (e.ofd && e.ofd->pipe == pp && e.ofd->kind == OFD::PIPE_R && e.owner == OWN_LIB && e.made_op == idx) parent_reads = true;
        }
        for (int i = 0; i < 3; i++) if (img->fds.count(i) && img->fds[i].pipe_id == kv.second.pipe_id) parent_reads = false;
        is_exit = parent_reads;
      }
      if (is_exit && exitfd < 0) { exitfd = kv.first; continue; }
      const char *whose = kv.second.owner == OWN_USER ? "caller" : "library";
      bool at_limit = (uint64_t) kv.first == k->caller->rlim_cur - 1;
      viol("C11", "descriptor-inherited", fmt("owner=%s/at-limit-1=%d", whose, at_limit ? 1 : 0),
           fmt("the program inherited descriptor %d (opened by the %s%s)", kv.first, whose, at_limit ? ", the highest permitted number" : ""), idx);
    }
    if (exitfd < 0) viol("C11", "exit-handle-missing", "", "the program did not inherit the exit-detection handle", idx);
    for (int i = 0; i < 3; i++) {
      for (size_t fd = 0; fd < 3; fd++) {
        FdEnt *e = k->fdent(k->caller, (int) fd);
        if (e && e->owner == OWN_LIB) { probe(P_lib_fd_on_012); break; }
      }
    }
  }
  (void) c;
}
