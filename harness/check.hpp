// Shared declarations of the check driver (main.cc, shrink.cc, evidence.cc).
#pragma once
#include <cstdint>
#include <map>
#include <set>
#include <string>
#include <vector>

#include "gen.hpp"
#include "runner.hpp"

struct PropCfg {
  const char *id;
  const char *profile;
  const char *level;         // exploration | fault_enumeration
  int mode;                  // 0 sample, 1 fault enumeration, 2 binding differential
  uint64_t quick_plans;      // number of plans (mode 0/2) or scenarios (mode 1) in the quick tier
  double thorough_secs;      // wall-clock box of the thorough tier
  const char *rule;          // how cases are generated and what makes one distinct / non-trivial
};
const PropCfg *prop_cfg(const std::string &id);

struct CaseResult {
  std::vector<Viol> viols;  // all properties
  uint64_t log_hash = 0;
  bool ok = true;           // false: subprocess crashed
  int crash_status = 0;
};

// Runs one case (plan or differential pair) in this process.
CaseResult run_case(const PropCfg &cfg, const Plan &plan, RunResult *rr_out = nullptr);
// Runs it in a forked subprocess (crash-safe); used by the shrinker and the replay gate.
CaseResult run_case_forked(const PropCfg &cfg, const Plan &plan);

bool has_viol(const CaseResult &r, const std::string &prop, const std::string &cls, std::string *sig = nullptr, std::string *detail = nullptr);

Plan shrink_plan(const PropCfg &cfg, const Plan &plan, const std::string &prop, const std::string &cls, int budget, int *runs_used);

struct KnownFinding { std::string status, property, signature, what, commit; };
std::vector<KnownFinding> load_known(const std::string &path);
const KnownFinding *match_known(const std::vector<KnownFinding> &k, const std::string &prop, const std::string &sig);
