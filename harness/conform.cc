// Kernel-model conformance: the same system-call micro-programs are executed once against the host kernel (real libc)
// and once against simk; the observations must be identical.  This calibrates the simulator, it never judges reproc:
// a mismatch is a machinery fault (exit 2).
#include <cerrno>
#include <csignal>
#include <cstdio>
#include <cstdlib>
#include <cstring>
#include <fcntl.h>
#include <functional>
#include <poll.h>
#include <string>
#include <sys/resource.h>
#include <sys/wait.h>
#include <unistd.h>
#include <vector>

#include "simk.hpp"

using namespace simk;

extern "C" {
int simk_pipe(int fds[2]);
int simk_fcntl(int fd, int cmd, ...);
ssize_t simk_read(int fd, void *buf, size_t n);
ssize_t simk_write(int fd, const void *buf, size_t n);
int simk_poll(struct pollfd *fds, nfds_t n, int timeout);
int simk_open(const char *path, int flags, ...);
int simk_close(int fd);
int simk_dup2(int a, int b);
pid_t simk_fork(void);
int simk_execvp(const char *file, char *const argv[]);
void simk__exit(int code);
pid_t simk_waitpid(pid_t pid, int *status, int options);
int simk_kill(pid_t pid, int sig);
int simk_sigaction(int sig, const struct sigaction *act, struct sigaction *old);
int simk_pthread_sigmask(int how, const sigset_t *set, sigset_t *old);
char *simk_getcwd(char *buf, size_t size);
int simk_chdir(const char *path);
}

namespace {

struct Sys {
  int (*pipe)(int[2]);
  int (*fcntl3)(int, int, int);
  ssize_t (*read)(int, void *, size_t);
  ssize_t (*write)(int, const void *, size_t);
  int (*poll)(struct pollfd *, nfds_t, int);
  int (*open)(const char *, int);
  int (*close)(int);
  int (*dup2)(int, int);
  char *(*getcwd)(char *, size_t);
  int (*chdir)(const char *);
};

int host_fcntl3(int fd, int cmd, int arg) { return fcntl(fd, cmd, arg); }
int host_open2(const char *p, int fl) { return open(p, fl); }
int sim_fcntl3(int fd, int cmd, int arg) { return simk_fcntl(fd, cmd, arg); }
int sim_open2(const char *p, int fl) { return simk_open(p, fl); }

const Sys host_sys = { pipe, host_fcntl3, read, write, poll, host_open2, close, dup2, getcwd, chdir };
const Sys sim_sys = { simk_pipe, sim_fcntl3, simk_read, simk_write, simk_poll, sim_open2, simk_close, simk_dup2, simk_getcwd, simk_chdir };

typedef std::vector<long> Obs;
static inline long E(long x) { return x < 0 ? -(long) errno : x; }

// every program takes the syscall table and appends observations; descriptor numbers are never observed directly
void p_pipe_basic(const Sys &s, Obs &o) {
  int p[2];
  o.push_back(E(s.pipe(p)));
  struct pollfd pf = { p[0], POLLIN, 0 };
  o.push_back(s.poll(&pf, 1, 0)); o.push_back(pf.revents);
  o.push_back(E(s.write(p[1], "hello", 5)));
  pf.revents = 0; o.push_back(s.poll(&pf, 1, 0)); o.push_back(pf.revents);
  char b[16];
  o.push_back(E(s.read(p[0], b, 3)));
  o.push_back(E(s.read(p[0], b, 5)));
  o.push_back(E(s.read(p[0], b, 0)));  // zero-sized read on an empty pipe with a writer
  o.push_back(E(s.write(p[1], "xy", 2)));
  o.push_back(E(s.close(p[1])));
  pf.revents = 0; o.push_back(s.poll(&pf, 1, 0)); o.push_back(pf.revents);  // POLLIN|POLLHUP
  o.push_back(E(s.read(p[0], b, 8)));
  pf.revents = 0; o.push_back(s.poll(&pf, 1, 0)); o.push_back(pf.revents);  // POLLHUP
  o.push_back(E(s.read(p[0], b, 8)));                                         // 0: EOF
  o.push_back(E(s.close(p[0])));
  o.push_back(E(s.close(p[0])));  // EBADF
}

void p_pipe_reader_gone(const Sys &s, Obs &o) {
  int p[2];
  s.pipe(p);
  struct pollfd pf = { p[1], POLLOUT, 0 };
  o.push_back(s.poll(&pf, 1, 0)); o.push_back(pf.revents);  // POLLOUT
  s.close(p[0]);
  pf.revents = 0; o.push_back(s.poll(&pf, 1, 0)); o.push_back(pf.revents);  // POLLOUT|POLLERR
  o.push_back(E(s.write(p[1], "a", 1)));                    // EPIPE (SIGPIPE ignored)
  o.push_back(E(s.write(p[1], "", 0)));
  s.close(p[1]);
}

void p_nonblock(const Sys &s, Obs &o) {
  int p[2];
  s.pipe(p);
  int fl = s.fcntl3(p[0], F_GETFL, 0);
  o.push_back(fl & O_ACCMODE);
  o.push_back(E(s.fcntl3(p[0], F_SETFL, fl | O_NONBLOCK)));
  o.push_back((s.fcntl3(p[0], F_GETFL, 0) & O_NONBLOCK) != 0);
  char b[8];
  o.push_back(E(s.read(p[0], b, 8)));  // EAGAIN
  int wfl = s.fcntl3(p[1], F_GETFL, 0);
  o.push_back(wfl & O_ACCMODE);
  s.fcntl3(p[1], F_SETFL, wfl | O_NONBLOCK);
  // fill the pipe with page-sized writes: total capacity and the first failing write
  std::vector<char> page(4096, 'x');
  long total = 0;
  for (int i = 0; i < 64; i++) { long r = E(s.write(p[1], page.data(), page.size())); if (r < 0) { o.push_back(r); break; } total += r; }
  o.push_back(total);
  struct pollfd pf = { p[1], POLLOUT, 0 };
  o.push_back(s.poll(&pf, 1, 0)); o.push_back(pf.revents);  // full: no POLLOUT
  o.push_back(E(s.write(p[1], "a", 1)));                    // EAGAIN
  std::vector<char> big(70000);
  o.push_back(E(s.read(p[0], big.data(), big.size())));   // one read drains what is there (<= 65536)
  // a nonblocking write larger than the pipe is accepted partially
  std::vector<char> huge(100000, 'y');
  o.push_back(E(s.write(p[1], huge.data(), huge.size())));
  s.close(p[0]); s.close(p[1]);
}

void p_fd_flags(const Sys &s, Obs &o) {
  int p[2];
  s.pipe(p);
  o.push_back(s.fcntl3(p[0], F_GETFD, 0));
  o.push_back(E(s.fcntl3(p[0], F_SETFD, FD_CLOEXEC)));
  o.push_back(s.fcntl3(p[0], F_GETFD, 0));
  int d = s.dup2(p[0], 40);
  o.push_back(d == 40);
  o.push_back(s.fcntl3(40, F_GETFD, 0));                 // close-on-exec is not copied
  o.push_back(s.dup2(p[0], p[0]) == p[0]);
  o.push_back(s.fcntl3(p[0], F_GETFD, 0));               // dup2(x, x) leaves the flag alone
  int fl = s.fcntl3(40, F_GETFL, 0);
  s.fcntl3(40, F_SETFL, fl | O_NONBLOCK);
  o.push_back((s.fcntl3(p[0], F_GETFL, 0) & O_NONBLOCK) != 0);  // status flags are shared by duplicates
  o.push_back(E(s.dup2(99, 41)));                       // EBADF
  o.push_back(E(s.fcntl3(99, F_GETFD, 0)));              // EBADF
  struct pollfd pf[2] = { { -1, POLLIN, 0 }, { 99, POLLIN, 0 } };
  o.push_back(s.poll(pf, 2, 0)); o.push_back(pf[0].revents); o.push_back(pf[1].revents);  // ignored, POLLNVAL
  s.close(40); s.close(p[0]); s.close(p[1]);
}

void p_devnull(const Sys &s, Obs &o) {
  int r = s.open("/dev/null", O_RDONLY | O_CLOEXEC);
  o.push_back(r >= 0);
  char b[4];
  o.push_back(E(s.read(r, b, 4)));
  o.push_back(E(s.write(r, "a", 1)));  // EBADF: opened read-only
  o.push_back(s.fcntl3(r, F_GETFD, 0));
  s.close(r);
  int w = s.open("/dev/null", O_WRONLY);
  o.push_back(E(s.write(w, "abc", 3)));
  o.push_back(E(s.read(w, b, 1)));    // EBADF
  struct pollfd pf = { w, POLLOUT | POLLIN, 0 };
  o.push_back(s.poll(&pf, 1, 0)); o.push_back(pf.revents);
  s.close(w);
  o.push_back(E(s.open("/nonexistent-dir/x", O_WRONLY | O_CREAT)));
}

void p_cwd(const Sys &s, Obs &o) {
  o.push_back(E(s.chdir("/tmp")));
  char small[3], ok[64];
  o.push_back(s.getcwd(small, sizeof small) == nullptr ? -(long) errno : 1);  // ERANGE
  o.push_back(s.getcwd(ok, sizeof ok) != nullptr && !strcmp(ok, "/tmp"));
  o.push_back(s.getcwd(ok, 5) != nullptr);   // exactly fits "/tmp" + NUL
  o.push_back(s.getcwd(ok, 4) == nullptr ? -(long) errno : 1);
  o.push_back(E(s.chdir("/dev/null")));      // ENOTDIR
  o.push_back(E(s.chdir("/no-such-dir")));   // ENOENT
  o.push_back(E(s.chdir("/")));
}

struct Prog { const char *name; void (*fn)(const Sys &, Obs &); };
const Prog kProgs[] = { { "pipe-basic", p_pipe_basic }, { "pipe-reader-gone", p_pipe_reader_gone }, { "nonblocking", p_nonblock },
                        { "descriptor-flags", p_fd_flags }, { "dev-null", p_devnull }, { "cwd", p_cwd } };

// ---- process-level: what a freshly exec'ed image inherits, and wait status encodings
// host side: fork; the child arranges its state and execs /proc/self/exe --dump-state, which prints what it sees
Obs host_exec_state() {
  Obs o;
  int rp[2];
  if (pipe(rp) < 0) return o;
  fflush(nullptr);
  pid_t pid = fork();
  if (pid == 0) {
    close(rp[0]);
    dup2(rp[1], 9);
    if (rp[1] != 9) close(rp[1]);
    for (int fd = 10; fd < 64; fd++) close(fd);
    int a = open("/dev/null", O_RDONLY); dup2(a, 20); if (a != 20) close(a);       // plain: inherited
    int b = open("/dev/null", O_RDONLY | O_CLOEXEC); dup2(b, 21); if (b != 21) close(b);  // dup2 drops close-on-exec: inherited
    int c = open("/dev/null", O_RDONLY); dup2(c, 22); if (c != 22) close(c); fcntl(22, F_SETFD, FD_CLOEXEC);  // closed by exec
    signal(SIGUSR1, SIG_IGN);                 // stays ignored
    signal(SIGUSR2, [](int) {});              // handler: reset to default
    sigset_t m; sigemptyset(&m); sigaddset(&m, SIGHUP); sigaddset(&m, SIGTERM); sigprocmask(SIG_SETMASK, &m, nullptr);  // mask inherited
    char *argv[] = { (char *) "simcheck", (char *) "--dump-state", nullptr };
    execv("/proc/self/exe", argv);
    _exit(99);
  }
  close(rp[1]);
  char buf[256];
  std::string s;
  for (;;) { ssize_t n = read(rp[0], buf, sizeof buf); if (n <= 0) break; s.append(buf, (size_t) n); }
  close(rp[0]);
  int st = 0;
  waitpid(pid, &st, 0);
  long v[6] = { 0, 0, 0, 0, 0, 0 };
  sscanf(s.c_str(), "%ld %ld %ld %ld %ld %ld", &v[0], &v[1], &v[2], &v[3], &v[4], &v[5]);
  for (long x : v) o.push_back(x);
  o.push_back(st);
  // wait status encodings
  pid = fork(); if (pid == 0) _exit(3);
  waitpid(pid, &st, 0); o.push_back(st);
  pid = fork(); if (pid == 0) { raise(SIGTERM); _exit(0); }
  waitpid(pid, &st, 0); o.push_back(st);
  pid = fork(); if (pid == 0) { pause(); _exit(0); }
  o.push_back(kill(pid, SIGKILL));
  waitpid(pid, &st, 0); o.push_back(st);
  o.push_back(E(waitpid(pid, &st, 0)));   // ECHILD
  o.push_back(E(kill(pid, 0)));           // ESRCH (assuming the pid is not re-used at once)
  return o;
}

Obs *g_sim_out = nullptr;
void sim_exec_body(void *) {
  Obs &o = *g_sim_out;
  Thread *t = K->cur;
  t->next_spec = 0;
  pid_t pid = simk_fork();
  if (pid == 0) {
    int a = simk_open("/dev/null", O_RDONLY); simk_dup2(a, 20); if (a != 20) simk_close(a);
    int b = simk_open("/dev/null", O_RDONLY | O_CLOEXEC); simk_dup2(b, 21); if (b != 21) simk_close(b);
    int c = simk_open("/dev/null", O_RDONLY); simk_dup2(c, 22); if (c != 22) simk_close(c); simk_fcntl(22, F_SETFD, FD_CLOEXEC);
    struct sigaction sa; memset(&sa, 0, sizeof sa);
    sa.sa_handler = SIG_IGN; simk_sigaction(SIGUSR1, &sa, nullptr);
    sa.sa_handler = [](int) {}; simk_sigaction(SIGUSR2, &sa, nullptr);
    sigset_t m; sigemptyset(&m); sigaddset(&m, SIGHUP); sigaddset(&m, SIGTERM); simk_pthread_sigmask(SIG_SETMASK, &m, nullptr);
    char *argv[] = { (char *) "prog", nullptr };
    simk_execvp("/bin/prog", argv);
    simk__exit(99);
  }
  Proc *c = K->by_pid[pid];
  ExecImage *img = c->image;
  o.push_back(img && img->fds.count(20)); o.push_back(img && img->fds.count(21)); o.push_back(img && img->fds.count(22));
  o.push_back(img && img->disp[SIGUSR1] == D_IGN); o.push_back(img && img->disp[SIGUSR2] == D_DFL);
  o.push_back(img ? (long) img->mask : -1);
  int st = 0;
  simk_waitpid(pid, &st, 0); o.push_back(st);
  t->next_spec = 1; pid = simk_fork(); if (pid == 0) simk__exit(3);
  simk_waitpid(pid, &st, 0); o.push_back(st);
  t->next_spec = 2; pid = simk_fork(); if (pid == 0) { char *argv[] = { (char *) "prog", nullptr }; simk_execvp("/bin/prog", argv); simk__exit(1); }
  simk_waitpid(pid, &st, 0); o.push_back(st);
  t->next_spec = 3; pid = simk_fork(); if (pid == 0) { char *argv[] = { (char *) "prog", nullptr }; simk_execvp("/bin/prog", argv); simk__exit(1); }
  o.push_back(simk_kill(pid, SIGKILL));
  simk_waitpid(pid, &st, 0); o.push_back(st);
  o.push_back(E(simk_waitpid(pid, &st, 0)));
  o.push_back(E(simk_kill(pid, 0)));
}

Obs *g_prog_out = nullptr;
const Prog *g_prog = nullptr;
void sim_prog_body(void *) { g_prog->fn(sim_sys, *g_prog_out); }

void sim_world() {
  World w;
  w.pipe_cap = 65536;
  w.rlim_cur = 256;
  w.pid_reuse = 0;
  w.zombie_gap = 0;
  K->reset(w, 1);
  K->hooks = nullptr;
  for (int fd = 0; fd < 3; fd++) K->user_open_at(fd, OFD::TTY);
  int err = 0;
  int bin = K->vfs_lookup(0, "/bin", &err);
  K->vfs_add(bin, "prog", VNode::EXEC);
  K->caller->disp[SIGPIPE] = D_IGN;
  ChildSpec exit0; exit0.script.push_back(Step{ Step::EXIT, 0, 0, 0 });
  ChildSpec unused;
  ChildSpec raise15; raise15.script.push_back(Step{ Step::RAISE, 0, SIGTERM, 0 });
  ChildSpec sleeper; sleeper.script.push_back(Step{ Step::SLEEP, 0, 1000000, 0 });
  K->specs = { exit0, unused, raise15, sleeper };
}

std::string show(const Obs &o) {
  std::string s;
  for (long x : o) { s += std::to_string(x); s += ' '; }
  return s;
}

}  // namespace

// printed by the exec'ed helper of host_exec_state()
int conform_dump_state() {
  long v[6];
  v[0] = fcntl(20, F_GETFD) >= 0; v[1] = fcntl(21, F_GETFD) >= 0; v[2] = fcntl(22, F_GETFD) >= 0;
  struct sigaction sa;
  sigaction(SIGUSR1, nullptr, &sa); v[3] = sa.sa_handler == SIG_IGN;
  sigaction(SIGUSR2, nullptr, &sa); v[4] = sa.sa_handler == SIG_DFL;
  sigset_t m; sigprocmask(SIG_SETMASK, nullptr, &m);
  unsigned long bits = 0;
  for (int i = 1; i <= 64; i++) if (sigismember(&m, i) == 1) bits |= 1ul << (i - 1);
  v[5] = (long) bits;
  char buf[128];
  int n = snprintf(buf, sizeof buf, "%ld %ld %ld %ld %ld %ld\n", v[0], v[1], v[2], v[3], v[4], v[5]);
  ssize_t w = write(9, buf, (size_t) n);
  (void) w;
  return 0;
}

// returns the number of mismatching programs
int conform_run(bool verbose) {
  if (!K) K = new Kernel();
  int bad = 0;
  signal(SIGPIPE, SIG_IGN);
  char cwd0[4096];
  if (!getcwd(cwd0, sizeof cwd0)) strcpy(cwd0, "/");
  for (const Prog &p : kProgs) {
    Obs h, s;
    p.fn(host_sys, h);
    sim_world();
    g_prog = &p; g_prog_out = &s;
    K->thread_new(sim_prog_body, nullptr);
    K->run();
    bool same = h == s && K->fatal.empty() && !K->hung;
    if (!same) bad++;
    if (verbose || !same) { printf("conformance %-18s %s\n  host: %s\n  simk: %s\n", p.name, same ? "ok" : "MISMATCH", show(h).c_str(), show(s).c_str()); fflush(stdout); }
  }
  if (chdir(cwd0) != 0) { /* ignore */ }
  {
    Obs h = host_exec_state(), s;
    sim_world();
    g_sim_out = &s;
    K->thread_new(sim_exec_body, nullptr);
    K->run();
    bool same = h == s && K->fatal.empty();
    if (!same) bad++;
    if (verbose || !same) printf("conformance %-18s %s\n  host: %s\n  simk: %s\n", "fork-exec-wait", same ? "ok" : "MISMATCH", show(h).c_str(), show(s).c_str());
  }
  World w0;
  K->reset(w0, 0);
  return bad;
}
