// Plan <-> JSON.
#include "plan.hpp"

using namespace simk;

static Json redir_j(const RedirSpec &r) { return Json::arr().push(r.type).push(r.handle).push(r.file).push(r.path); }
static RedirSpec redir_p(const Json &j) {
  RedirSpec r;
  if (j.size() >= 4) { r.type = (int) j[0].as_int(); r.handle = (int) j[1].as_int(); r.file = (int) j[2].as_int(); r.path = (int) j[3].as_int(); }
  return r;
}
static Json strs_j(const std::vector<std::string> &v) { Json a = Json::arr(); for (auto &s : v) a.push(s); return a; }
static std::vector<std::string> strs_p(const Json &j) { std::vector<std::string> v; for (size_t i = 0; i < j.size(); i++) v.push_back(j[i].s); return v; }
static Json ints_j(const std::vector<int> &v) { Json a = Json::arr(); for (int x : v) a.push(x); return a; }
static std::vector<int> ints_p(const Json &j) { std::vector<int> v; for (size_t i = 0; i < j.size(); i++) v.push_back((int) j[i].as_int()); return v; }

static const char *const step_names[] = { "write", "read", "read_eof", "sleep", "close", "exit", "raise", "echo", "spawn" };
static const char *const term_names[] = { "die", "ignore", "exit_after", "die_after" };

Json Plan::to_json() const {
  Json j = Json::obj();
  j.set("v", 1);
  j.set("seed", (unsigned long long) seed);
  j.set("profile", profile);
  Json w = Json::obj();
  w.set("pipe_cap", (unsigned long long) this->w.k.pipe_cap);
  w.set("rlim_cur", (unsigned long long) this->w.k.rlim_cur);
  w.set("rlim_max", (unsigned long long) this->w.k.rlim_max);
  w.set("preempt_num", this->w.k.preempt_num);
  w.set("preempt_den", this->w.k.preempt_den);
  w.set("jitter_mode", this->w.k.jitter_mode);
  w.set("pid_reuse", this->w.k.pid_reuse);
  w.set("reoccupy_num", this->w.k.reoccupy_num);
  w.set("zombie_gap", this->w.k.zombie_gap);
  w.set("stick_pct", this->w.k.stick_pct);
  w.set("core_dumps", this->w.k.core_dumps);
  w.set("stall_num", this->w.k.stall_num);
  w.set("errno_clobber", this->w.k.errno_clobber);
  w.set("clock_step_at_ms", (long long) this->w.k.clock_step_at_ms).set("clock_step_ms", (long long) this->w.k.clock_step_ms);
  w.set("low_fds", this->w.low_fds);
  w.set("sigpipe", this->w.sigpipe);
  w.set("sa_flags", this->w.sa_flags);
  Json ex = Json::arr();
  for (auto &e : this->w.extra) ex.push(Json::arr().push(e.fd).push(e.kind).push(e.cloexec ? 1 : 0));
  w.set("extra_fds", ex);
  w.set("cwd_depth", this->w.cwd_depth);
  w.set("cwd_comp", this->w.cwd_comp);
  w.set("parent_env", strs_j(this->w.parent_env));
  w.set("mask", (unsigned long long) this->w.mask);
  w.set("ignored", ints_j(this->w.ignored));
  w.set("handled", ints_j(this->w.handled));
  w.set("binding", this->w.binding);
  j.set("world", w);
  Json ch = Json::arr();
  for (auto &c : children) {
    Json o = Json::obj();
    o.set("term", term_names[c.term]);
    o.set("term_delay_ms", (long long) c.term_delay_ms);
    o.set("term_code", c.term_code);
    o.set("ignore_sigpipe", c.ignore_sigpipe);
    Json sc = Json::arr();
    for (auto &s : c.script) sc.push(Json::arr().push(step_names[s.k]).push(s.fd).push((long long) s.n).push((long long) s.chunk));
    o.set("script", sc);
    ch.push(o);
  }
  j.set("children", ch);
  Json st = Json::arr();
  for (auto &s : starts) {
    Json o = Json::obj();
    o.set("in", redir_j(s.in)); o.set("out", redir_j(s.out)); o.set("err", redir_j(s.err));
    o.set("parent", s.parent); o.set("discard", s.discard); o.set("file", s.file); o.set("path", s.path);
    o.set("env_behavior", s.env_behavior); o.set("env_null", s.env_null); o.set("env_extra", strs_j(s.env_extra));
    o.set("wd", s.wd); o.set("prog", s.prog); o.set("args", strs_j(s.args)); o.set("argv_null", s.argv_null); o.set("argv_empty", s.argv_empty);
    o.set("input_size", (long long) s.input_size); o.set("input_bad", s.input_bad);
    o.set("deadline", s.deadline);
    Json sp = Json::arr(); for (int i = 0; i < 6; i++) sp.push(s.stop[i]); o.set("stop", sp);
    o.set("fork", s.fork); o.set("nonblocking", s.nonblocking); o.set("child", s.child); o.set("clone", s.clone);
    st.push(o);
  }
  j.set("starts", st);
  Json ops_j = Json::arr();
  for (auto &op : ops) {
    Json o = Json::arr();
    o.push(op_name[op.kind]).push(op.thread).push(op.h).push(op.spec);
    o.push((long long) op.a).push((long long) op.b).push((long long) op.c).push((long long) op.d).push((long long) op.e).push((long long) op.f);
    Json v = Json::arr(); for (auto x : op.v) v.push((long long) x); o.push(v);
    ops_j.push(o);
  }
  j.set("ops", ops_j);
  Json fl = Json::arr();
  for (auto &f : faults) {
    Json o = Json::obj();
    o.set("op", f.op); o.set("call", kind_name[f.kind]); o.set("nth", f.nth); o.set("side", f.child ? "child" : "parent");
    o.set("err", f.err); o.set("variant", f.variant);
    fl.push(o);
  }
  j.set("faults", fl);
  if (use_sched) { Json s = Json::arr(); for (auto x : sched) s.push((long long) x); j.set("sched", s); }
  return j;
}

bool Plan::from_json(const Json &j, Plan *p) {
  *p = Plan();
  p->seed = (uint64_t) j.num("seed");
  p->profile = j.str("profile");
  const Json &w = j.at("world");
  p->w.k.pipe_cap = (size_t) w.num("pipe_cap", 65536);
  p->w.k.rlim_cur = (uint64_t) w.num("rlim_cur", 64);
  p->w.k.rlim_max = (uint64_t) w.num("rlim_max", 4096);
  p->w.k.preempt_num = (unsigned) w.num("preempt_num");
  p->w.k.preempt_den = (unsigned) w.num("preempt_den", 100);
  p->w.k.jitter_mode = (unsigned) w.num("jitter_mode");
  p->w.k.pid_reuse = (unsigned) w.num("pid_reuse", 1);
  p->w.k.reoccupy_num = (unsigned) w.num("reoccupy_num");
  p->w.k.zombie_gap = (unsigned) w.num("zombie_gap", 1);
  p->w.k.stick_pct = (unsigned) w.num("stick_pct", 50);
  p->w.k.core_dumps = (unsigned) w.num("core_dumps", 0);
  p->w.k.stall_num = (unsigned) w.num("stall_num", 0);
  p->w.k.errno_clobber = (unsigned) w.num("errno_clobber", 0);
  p->w.k.clock_step_at_ms = (int64_t) w.num("clock_step_at_ms", -1);
  p->w.k.clock_step_ms = (int64_t) w.num("clock_step_ms", 0);
  p->w.low_fds = (int) w.num("low_fds", 7);
  p->w.sigpipe = (int) w.num("sigpipe", 0);
  p->w.sa_flags = w.num("sa_flags", 0) != 0;
  const Json &ex = w.at("extra_fds");
  for (size_t i = 0; i < ex.size(); i++) { ExtraFd e; e.fd = (int) ex[i][0].as_int(); e.kind = (int) ex[i][1].as_int(); e.cloexec = ex[i][2].as_int() != 0; p->w.extra.push_back(e); }
  p->w.cwd_depth = (int) w.num("cwd_depth", 1);
  p->w.cwd_comp = (int) w.num("cwd_comp", 4);
  p->w.parent_env = strs_p(w.at("parent_env"));
  p->w.mask = (uint64_t) w.num("mask");
  p->w.ignored = ints_p(w.at("ignored"));
  p->w.handled = ints_p(w.at("handled"));
  p->w.binding = (int) w.num("binding");
  const Json &ch = j.at("children");
  for (size_t i = 0; i < ch.size(); i++) {
    ChildSpec c;
    std::string tn = ch[i].str("term", "die");
    for (int k = 0; k < 4; k++) if (tn == term_names[k]) c.term = (ChildSpec::Term) k;
    c.term_delay_ms = ch[i].num("term_delay_ms");
    c.term_code = (int) ch[i].num("term_code");
    c.ignore_sigpipe = ch[i].num("ignore_sigpipe") != 0;
    const Json &sc = ch[i].at("script");
    for (size_t k = 0; k < sc.size(); k++) {
      Step s;
      for (int q = 0; q < 9; q++) if (sc[k][0].s == step_names[q]) s.k = (Step::K) q;
      s.fd = (int) sc[k][1].as_int(); s.n = sc[k][2].as_int(); s.chunk = sc[k][3].as_int();
      c.script.push_back(s);
    }
    p->children.push_back(c);
  }
  const Json &st = j.at("starts");
  for (size_t i = 0; i < st.size(); i++) {
    const Json &o = st[i];
    StartSpec s;
    s.in = redir_p(o.at("in")); s.out = redir_p(o.at("out")); s.err = redir_p(o.at("err"));
    s.parent = o.num("parent") != 0; s.discard = o.num("discard") != 0; s.file = (int) o.num("file"); s.path = (int) o.num("path");
    s.env_behavior = (int) o.num("env_behavior"); s.env_null = o.num("env_null", 1) != 0; s.env_extra = strs_p(o.at("env_extra"));
    s.wd = (int) o.num("wd"); s.prog = (int) o.num("prog"); s.args = strs_p(o.at("args")); s.argv_null = o.num("argv_null") != 0; s.argv_empty = o.num("argv_empty") != 0;
    s.input_size = o.num("input_size", -1); s.input_bad = o.num("input_bad") != 0;
    s.deadline = (int) o.num("deadline");
    const Json &sp = o.at("stop"); for (size_t k = 0; k < 6 && k < sp.size(); k++) s.stop[k] = (int) sp[k].as_int();
    s.fork = o.num("fork") != 0; s.nonblocking = o.num("nonblocking") != 0; s.child = (int) o.num("child"); s.clone = o.num("clone") != 0;
    p->starts.push_back(s);
  }
  const Json &ops_j = j.at("ops");
  for (size_t i = 0; i < ops_j.size(); i++) {
    const Json &o = ops_j[i];
    Op op;
    if (o.size() < 11) return false;
    op.kind = -1;
    for (int k = 0; k < OP_COUNT; k++) if (o[0].s == op_name[k]) op.kind = k;
    if (op.kind < 0) return false;
    op.thread = (int) o[1].as_int(); op.h = (int) o[2].as_int(); op.spec = (int) o[3].as_int();
    op.a = o[4].as_int(); op.b = o[5].as_int(); op.c = o[6].as_int(); op.d = o[7].as_int(); op.e = o[8].as_int(); op.f = o[9].as_int();
    for (size_t k = 0; k < o[10].size(); k++) op.v.push_back(o[10][k].as_int());
    p->ops.push_back(op);
  }
  const Json &fl = j.at("faults");
  for (size_t i = 0; i < fl.size(); i++) {
    Fault f;
    f.op = (int) fl[i].num("op"); f.kind = kind_from_name(fl[i].str("call")); f.nth = (int) fl[i].num("nth", 1);
    f.child = fl[i].str("side") == "child"; f.err = (int) fl[i].num("err"); f.variant = (int) fl[i].num("variant");
    if (f.kind == K_COUNT) return false;
    p->faults.push_back(f);
  }
  if (j.has("sched")) {
    p->use_sched = true;
    const Json &s = j.at("sched");
    for (size_t i = 0; i < s.size(); i++) p->sched.push_back((uint32_t) s[i].as_int());
  }
  return true;
}
