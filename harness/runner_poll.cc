// reproc_poll (C08 C09), the blocking-bound monitor (C08), reproc_drain / reproc_run (C16).
#include "runner_state.hpp"

#include <climits>
#include <cstdio>
#include <cstdlib>
#include <signal.h>

extern "C" void *simk_malloc(size_t);

static std::string en(long long r) {
  if (r >= 0) return std::to_string(r);
  return std::string("-") + strerror((int) -r);
}

int Runner::truth_bits(const HState &h, int interests) {
  int bits = 0;
  if (h.st != LS_RUNNING && h.st != LS_EXITED) return 0;
  if ((interests & C.E_IN) && h.open_[0]) {
    Pipe *p = pipe_by_id(h.pipe_id[0]);
    if (p && (p->space() > 0 || p->readers == 0)) bits |= C.E_IN;
  }
  if ((interests & C.E_OUT) && h.open_[1]) {
    Pipe *p = pipe_by_id(h.pipe_id[1]);
    if (p && (p->len > 0 || p->writers == 0)) bits |= C.E_OUT;
  }
  if ((interests & C.E_ERR) && h.open_[2]) {
    Pipe *p = pipe_by_id(h.pipe_id[2]);
    if (p && (p->len > 0 || p->writers == 0)) bits |= C.E_ERR;
  }
  if ((interests & C.E_EXIT) && h.st == LS_RUNNING) {
    Pipe *p = pipe_by_id(h.pipe_id[3]);
    if (p && p->writers == 0) bits |= C.E_EXIT;
  }
  return bits;
}

static std::string source_pattern(Runner *r, const Op &op, int64_t now_ms) {
  std::string s;
  for (size_t i = 0; i + 1 < op.v.size(); i += 2) {
    int hi = (int) op.v[i];
    if (hi < 0 || (size_t) hi >= r->hs.size() || r->hs[(size_t) hi].st == LS_NONE) { s += 'E'; continue; }
    HState &h = r->hs[(size_t) hi];
    if (h.st == LS_NEW) s += 'U';
    else if (h.dl_hi_ms < 0) s += 'N';
    else if (h.dl_hi_ms < now_ms) s += 'X';
    else s += 'D';
  }
  return s;
}

// The precise form of "never blocks past ...": checked on the blocking call itself.
void Runner::on_poll(Thread *t, const pollfd_sim *, size_t, int timeout) {
  if (t->op < 0) return;
  const Op &op = plan.ops[(size_t) t->op];
  OpCtx &cx = octx[(size_t) t->tid];
  cx.polls++;
  int64_t clk = cx.last_clock_ms >= 0 ? cx.last_clock_ms : ms(K->now_ns);
  int64_t bound = -1;  // -1 unbounded
  auto upd = [&](int64_t v) { if (v < 0) v = 0; if (bound < 0 || v < bound) bound = v; };
  std::string what;
  HState *h = op.h >= 0 && (size_t) op.h < hs.size() ? &hs[(size_t) op.h] : nullptr;
  if (op.kind == OP_POLL) {
    if ((int) op.a >= 0) upd(op.a);
    for (size_t i = 0; i + 1 < op.v.size(); i += 2) {
      int hi = (int) op.v[i];
      if (hi < 0 || (size_t) hi >= hs.size()) continue;
      HState &hh = hs[(size_t) hi];
      if (hh.st != LS_RUNNING && hh.st != LS_EXITED) continue;
      if (hh.dl_hi_ms >= 0) upd(hh.dl_hi_ms - clk);
    }
    what = "sources=" + source_pattern(this, op, clk) + fmt("/timeout=%s", (int) op.a < 0 ? "inf" : "finite");
  } else if (op.kind == OP_WAIT) {
    int T = (int) op.a;
    if (T >= 0) upd(T);
    else if (T == C.DEADLINE_ && h && h->dl_hi_ms >= 0) upd(h->dl_hi_ms - clk);
    what = fmt("wait/timeout=%s", T >= 0 ? "finite" : T == C.DEADLINE_ ? "deadline" : "inf");
  } else if (op.kind == OP_DRAIN) {
    if (h && h->dl_hi_ms >= 0) upd(h->dl_hi_ms - clk);
    what = "drain";
  } else if (op.kind == OP_STOP || (op.kind == OP_DESTROY && h && h->st == LS_RUNNING)) {
    // every wait of a stop sequence is one of its steps: the blocking call may be unbounded only if a step asks for it,
    // and never longer than the longest step
    int st[6];
    if (op.kind == OP_STOP) { st[0] = (int) op.a; st[1] = (int) op.b; st[2] = (int) op.c; st[3] = (int) op.d; st[4] = (int) op.e; st[5] = (int) op.f; }
    else memcpy(st, h->stop, sizeof st);
    if (st[0] == C.S_NOOP && st[2] == C.S_NOOP && st[4] == C.S_NOOP) { st[0] = C.S_WAIT; st[1] = C.DEADLINE_; st[2] = C.S_TERMINATE; st[3] = C.INFINITE_; }
    bool inf_ok = false;
    int64_t longest = 0;
    for (int i = 0; i < 3; i++) {
      int a = st[2 * i], to = st[2 * i + 1];
      if (a == C.S_NOOP) continue;
      if (to == C.INFINITE_ || (to < 0 && to != C.DEADLINE_)) inf_ok = true;
      else if (to == C.DEADLINE_) { if (!h || h->dl_hi_ms < 0) inf_ok = true; else longest = std::max<int64_t>(longest, std::max<int64_t>(0, h->dl_hi_ms - clk)); }
      else longest = std::max<int64_t>(longest, to);
    }
    if (!inf_ok) bound = longest;
    const char *pr = op.kind == OP_STOP ? "C07" : "C15";
    if (bound >= 0 && (timeout < 0 || timeout > bound))
      viol(pr, "stop-wait-exceeds-its-timeout", fmt("actions=%d,%d,%d/requested=%s", st[0], st[2], st[4], timeout < 0 ? "infinite" : "finite"),
           fmt("a wait of the stop sequence was issued with timeout %d ms although no step allows more than %lld ms", timeout, (long long) bound), t->op);
    return;
  } else return;
  if (bound < 0) return;
  if (cx.polls == 1) cx.limit_ns = K->now_ns + bound * 1000000 + 1000000 + (K->now_ns - octx_t0(t));
  // time that passed inside the call before it blocks (pre-emption, drawn jitter between the library's clock readings) is not
  // the library's doing: deadlines closer together than that count as tied
  int64_t slack = cx.polls == 1 ? (K->now_ns - octx_t0(t)) / 1000000 + 1 : 0;
  if (timeout < 0 || timeout > bound + slack)
    viol("C08", "blocks-past-bound", what,
         fmt("the blocking poll was issued with timeout %d ms although the call may wait at most %lld ms (timeout/earliest deadline)", timeout, (long long) bound), t->op);
  else if (cx.polls > 1 && op.kind != OP_DRAIN && K->now_ns + (int64_t) timeout * 1000000 > cx.limit_ns + 1000000)
    viol("C08", "blocks-past-bound", what + "/repeated-poll",
         fmt("poll number %d of this call was issued with timeout %d ms, %.3f ms after the first one: together they exceed the bound", cx.polls, timeout,
             (double) (K->now_ns - cx.first_poll_ns) / 1e6), t->op);
  if (cx.polls == 1) cx.first_poll_ns = K->now_ns;
}

void Runner::on_poll_return(Thread *t, const pollfd_sim *, size_t, int) {
  if (t->op < 0) return;
  const Op &op = plan.ops[(size_t) t->op];
  if (op.kind != OP_POLL) return;
  OpCtx &cx = octx[(size_t) t->tid];
  cx.poll_truth.clear();
  for (size_t i = 0; i + 1 < op.v.size(); i += 2) {
    int hi = (int) op.v[i];
    if (hi < 0 || (size_t) hi >= hs.size()) { cx.poll_truth.push_back(0); continue; }
    cx.poll_truth.push_back(truth_bits(hs[(size_t) hi], (int) op.v[i + 1]));
  }
  cx.poll_returned = true;
}

void Runner::op_poll(Thread *t, int idx, const Op &op_in, OpRes &res) {
  // binding differential: reproc++ sources own their process, so a handle can appear only once and never be NULL
  Op op_c;
  if (plan.profile == "C19") {
    op_c = op_in;
    op_c.v.clear();
    std::set<int> seen;
    for (size_t i = 0; i + 1 < op_in.v.size(); i += 2) {
      int hi = (int) op_in.v[i];
      bool null_source = hi < 0 || (size_t) hi >= hs.size() || hs[(size_t) hi].st == LS_NONE;
      if (!null_source && (hs[(size_t) hi].st == LS_INCHILD || seen.count(hi))) continue;
      if (!null_source) seen.insert(hi);
      op_c.v.push_back(null_source ? -1 : hi);  // process-less sources stay: reproc++ expresses them as moved-from objects
      op_c.v.push_back(op_in.v[i + 1]);
    }
  }
  const Op &op = plan.profile == "C19" ? op_c : op_in;
  size_t n = op.v.size() / 2;
  OpCtx &cx = octx[(size_t) t->tid];
  std::vector<ShimSource> src(n ? n : 1);
  std::vector<HState *> hv(n, nullptr);
  bool pollable = false;
  int timeout = (int) op.a;
  int64_t t0ms = ms(K->now_ns);
  bool def_expired = false;
  for (size_t i = 0; i < n; i++) {
    int hi = (int) op.v[2 * i];
    int interests = (int) op.v[2 * i + 1];
    HState *h = hi >= 0 && (size_t) hi < hs.size() && hs[(size_t) hi].st != LS_NONE ? &hs[(size_t) hi] : nullptr;
    if (h && h->st == LS_INCHILD) h = nullptr;
    hv[i] = h;
    src[i].process = h ? h->p : nullptr;
    src[i].interests = interests;
    src[i].events = 0x5a5a;  // must be overwritten
    if (!h) continue;
    if ((interests & C.E_IN) && h->open_[0]) pollable = true;
    if ((interests & C.E_OUT) && h->open_[1]) pollable = true;
    if ((interests & C.E_ERR) && h->open_[2]) pollable = true;
    if ((interests & C.E_EXIT) && h->st == LS_RUNNING) pollable = true;
    if ((h->st == LS_RUNNING || h->st == LS_EXITED) && h->dl_hi_ms >= 0 && h->dl_hi_ms < t0ms) def_expired = true;
  }
  bool null_sources = op.b & 1, zero_n = op.b & 2;
  api_begin(t, idx, -1, -1);
  ShimRet r = api->poll(null_sources ? nullptr : src.data(), zero_n ? 0 : n, timeout);
  api_end(t);
  res.raw = r;
  res.ret = shim_norm(r);
  res.t1_ns = K->now_ns;
  res.parked = t->op_parked;
  res.parked_ns = t->op_parked_ns;
  res.calls = t->op_calls;
  res.ran = true;
  t->op = -1;
  long long v = res.ret;
  for (size_t i = 0; i < n; i++) res.events.push_back(src[i].events);
  std::string pat = source_pattern(this, op, t0ms);
  tuple(OP_POLL, (uint64_t) n * 8 + (uint64_t) (v < 0 ? 7 : v > 3 ? 3 : v), std::hash<std::string>()(pat), (uint64_t) (timeout < 0 ? 2 : timeout > 0));
  if (null_sources || zero_n || n == 0) {
    if (v != C.EINVAL_) viol("C14", "misuse-not-rejected", "op=poll/state=no-sources", fmt("poll without sources returned %s", en(v).c_str()), idx);
    return;
  }
  bool injected = false;
  for (auto &f : K->faults) if (f.fired && f.op == idx) injected = true;
  if (injected && v < 0) return;
  int64_t t1ms = ms(res.t1_ns);
  if (timeout == 0 && res.parked) viol("C08", "poll-zero-timeout-blocked", "", "poll with timeout 0 parked", idx);

  if (def_expired) {
    probe(P_expired_at_poll);
    int cnt = 0; bool oksrc = true;
    for (size_t i = 0; i < n; i++) {
      if (src[i].events == 0) continue;
      cnt++;
      if (src[i].events != C.E_DEADLINE || !hv[i] || hv[i]->dl_lo_ms < 0 || hv[i]->dl_lo_ms > t1ms) oksrc = false;
    }
    for (size_t i = 0; i < n; i++) {
      int ev = src[i].events;
      if (ev & ~(src[i].interests | C.E_DEADLINE) & 0x1f || (ev & (C.E_IN | C.E_OUT | C.E_ERR | C.E_EXIT)) || (ev & ~0x1f))
        viol("C09", "false-event", "path=expired-deadline", fmt("source %zu carries events %#x although poll returned because a deadline had expired (stale or unrequested events)", i, ev), idx);
    }
    if (v != 1 || cnt != 1 || !oksrc)
      viol("C08", "expired-deadline-not-reported", "sources=" + pat, fmt("a deadline had already expired but poll returned %s", en(v).c_str()), idx);
    else if (res.parked)
      viol("C08", "expired-deadline-not-immediate", "sources=" + pat, "poll parked although a deadline had already expired", idx);
    return;
  }
  if (!pollable) {
    probe(P_poll_epipe);
    if (v != C.EPIPE_) {
      // a deadline that expires exactly now is a tie: the deadline event is acceptable
      bool tie = false;
      for (size_t i = 0; i < n; i++) if (hv[i] && hv[i]->dl_lo_ms >= 0 && hv[i]->dl_lo_ms <= t1ms) tie = true;
      if (!(tie && v == 1))
        viol("C09", "closed-pipe-error-missing", "sources=" + pat, fmt("no requested stream can be polled any more but poll returned %s", en(v).c_str()), idx);
    }
    return;
  }
  if (v == C.EPIPE_) {
    viol("C09", "closed-pipe-error-spurious", "sources=" + pat, "poll returned the closed-pipe error although a requested stream can still be polled", idx);
    return;
  }
  if (v < 0) {
    viol("C14", "unexpected-error", "op=poll/state=-", fmt("poll returned %s without any injected failure", en(v).c_str()), idx);
    return;
  }
  // ---- shape (C09)
  int nonzero = 0, deadline_sources = 0;
  for (size_t i = 0; i < n; i++) {
    int ev = src[i].events;
    if (ev) nonzero++;
    if (!hv[i] && ev) viol("C09", "event-on-empty-source", "", fmt("source %zu has no process but reports events %#x", i, ev), idx);
    if (hv[i] && (ev & ~(src[i].interests | C.E_DEADLINE)))
      viol("C09", "event-not-requested", fmt("interests=%#x/events=%#x", src[i].interests & 31, ev & 31),
           fmt("source %zu reports %#x, interests were %#x", i, ev, src[i].interests), idx);
    if (ev & C.E_DEADLINE) deadline_sources++;
  }
  if (v != nonzero) viol("C09", "return-count", "", fmt("poll returned %lld but %d sources carry events", v, nonzero), idx);

  int64_t earliest_hi = -1, earliest_lo = -1;
  for (size_t i = 0; i < n; i++) {
    if (!hv[i] || hv[i]->dl_hi_ms < 0 || (hv[i]->st != LS_RUNNING && hv[i]->st != LS_EXITED)) continue;
    if (earliest_hi < 0 || hv[i]->dl_hi_ms < earliest_hi) earliest_hi = hv[i]->dl_hi_ms;
    if (earliest_lo < 0 || hv[i]->dl_lo_ms < earliest_lo) earliest_lo = hv[i]->dl_lo_ms;
  }
  if (v == 0) {
    probe(P_poll_timeout);
    if (timeout < 0) viol("C08", "poll-infinite-returned-zero", "sources=" + pat, "poll(INFINITE) returned 0", idx);
    else if (res.t1_ns - res.t0_ns < (int64_t) timeout * 1000000)
      viol("C08", "poll-timeout-early", "", fmt("poll(%d) returned 0 after %.3f ms", timeout, (double) (res.t1_ns - res.t0_ns) / 1e6), idx);
    if (timeout >= 0 && earliest_hi >= 0 && earliest_hi + 1 < t0ms + timeout)
      viol("C08", "deadline-missed", "sources=" + pat, fmt("a deadline at %lld ms lies before the timeout at %lld ms but poll returned 0", (long long) earliest_hi,
                                                          (long long) (t0ms + timeout)), idx);
    if (timeout >= 0 && earliest_lo >= 0 && earliest_lo == t0ms + timeout) probe(P_deadline_eq_timeout);
    if (cx.poll_returned)
      for (size_t i = 0; i < n && i < cx.poll_truth.size(); i++)
        if (cx.poll_truth[i])
          viol("C09", "ready-stream-not-reported", fmt("bits=%#x", cx.poll_truth[i]), fmt("source %zu had ready streams %#x when poll returned 0", i, cx.poll_truth[i]), idx);
    return;
  }
  if (deadline_sources) {
    probe(P_poll_deadline_event);
    size_t who = 0;
    for (size_t i = 0; i < n; i++) if (src[i].events & C.E_DEADLINE) who = i;
    bool only = v == 1 && nonzero == 1 && src[who].events == C.E_DEADLINE;
    if (!only) viol("C08", "deadline-event-not-alone", "sources=" + pat, "the deadline event must be the only event of the only reporting source", idx);
    HState *h = hv[who];
    if (!h || h->dl_lo_ms < 0) { viol("C08", "deadline-event-on-source-without-deadline", "sources=" + pat, fmt("source %zu has no deadline", who), idx); return; }
    if (t1ms < h->dl_lo_ms) viol("C08", "deadline-event-early", "sources=" + pat, fmt("deadline event at %lld ms, deadline is %lld ms", (long long) t1ms, (long long) h->dl_lo_ms), idx);
    // clock readings for different sources are taken at different instants: deadlines closer together than the time that passed
    // inside the call (outside the blocking poll) count as tied
    int64_t jit_ms = (cx.first_poll_ns > 0 ? cx.first_poll_ns - res.t0_ns : (res.t1_ns - res.t0_ns) - res.parked_ns) / 1000000 + 1;
    if (earliest_hi >= 0 && h->dl_lo_ms > earliest_hi + jit_ms)
      viol("C08", "deadline-event-wrong-source", "sources=" + pat, fmt("source %zu (deadline %lld ms) is not the one with the earliest deadline (%lld ms)", who,
                                                                      (long long) h->dl_lo_ms, (long long) earliest_hi), idx);
    if (timeout >= 0 && std::max(t0ms, cx.last_clock_ms) + timeout + 1 < h->dl_lo_ms)
      viol("C08", "deadline-event-before-timeout", "sources=" + pat, "the timeout lies before the deadline but the deadline event was reported", idx);
    int eqc = 0;
    for (size_t i = 0; i < n; i++) if (hv[i] && hv[i]->dl_lo_ms == h->dl_lo_ms) eqc++;
    if (eqc > 1) probe(P_equal_deadlines);
    return;
  }
  // ---- stream / exit events: soundness and completeness against ground truth at the underlying poll's return (C09)
  if (!cx.poll_returned) { viol("C09", "events-without-poll", "", "events were reported without polling the operating system", idx); return; }
  for (size_t i = 0; i < n && i < cx.poll_truth.size(); i++) {
    int ev = src[i].events & (C.E_IN | C.E_OUT | C.E_ERR | C.E_EXIT);
    int truth = cx.poll_truth[i];
    if (ev & ~truth)
      viol("C09", "false-event", fmt("bits=%#x", ev & ~truth), fmt("source %zu reports %#x but only %#x was ready", i, ev, truth), idx);
    if (truth & ~ev)
      viol("C09", "ready-stream-not-reported", fmt("bits=%#x", truth & ~ev), fmt("source %zu had %#x ready but only %#x was reported", i, truth, ev), idx);
    if ((ev & C.E_EXIT) && hv[i]) {
      Proc *c = proc_of(*hv[i]);
      if (c && c->st == Proc::RUNNING)
        viol("C09", "exit-reported-for-running-child", fmt("mode=%s", hv[i]->forkmode ? "fork" : "exec"),
             "the exit event was reported while the child is still running: a zero-timeout wait would block or time out", idx);
      if (c && c->st == Proc::DYING) probe(P_zombie_gap_seen);
    }
  }
}

// ------------------------------------------------------------------ drain / run (C16)
struct SinkCall { int which; int tag; size_t size; };
struct DrainCtx {
  Runner *r;
  Thread *t;
  int idx;
  int h;  // handle index or -1 (run)
  int fail_at;
  int fail_value;
  int ncalls = 0;
  std::vector<SinkCall> calls;
  uint64_t got[3] = { 0, 0, 0 };
  bool corrupt = false;
  int uid = -1;
};

static int sink_cb(void *ctx, int which, int tag, const uint8_t *buf, size_t size) {
  DrainCtx *d = (DrainCtx *) ctx;
  // the caller's sink is code like any other: the thread can lose the processor on its way in, between the library's read and
  // the moment the sink looks at the buffer
  if (d->r->tpos.size() > 1 && !d->t->child) K->preempt_point(d->t);
  bool sv = d->t->in_callback;
  d->t->in_callback = true;
  d->ncalls++;
  d->calls.push_back(SinkCall{ which, tag, size });
  Runner *r = d->r;
  if (d->uid < 0) {
    if (d->h >= 0) d->uid = r->hs[(size_t) d->h].uid;
    else for (Proc *p : K->procs) if (p->start_op == d->idx) d->uid = p->uid;
  }
  int s = tag == r->C.STREAM_OUT ? 1 : tag == r->C.STREAM_ERR ? 2 : 0;
  if (s && size && d->uid >= 0) {
    for (size_t i = 0; i < size; i++)
      if (buf[i] != K->byte_at(d->uid, s, d->got[s] + i)) { d->corrupt = true; break; }
    d->got[s] += size;
  }
  int rv = d->fail_at > 0 && d->ncalls == d->fail_at ? d->fail_value : 0;
  d->t->in_callback = sv;
  return rv;
}

void Runner::op_drain_run(Thread *t, int idx, const Op &op, OpRes &res) {
  Kernel *k = K;
  bool is_run = op.kind == OP_RUN;
  HState *h = !is_run && op.h >= 0 && (size_t) op.h < hs.size() ? &hs[(size_t) op.h] : nullptr;
  void *hp = h ? h->p : nullptr;
  int st0 = h ? h->st : LS_NONE;
  int ok = (int) op.a, ek = (int) op.b;
  DrainCtx d;
  d.r = this; d.t = t; d.idx = idx; d.h = is_run ? -1 : op.h; d.fail_at = (int) op.c; d.fail_value = (int) op.d;
  if (h) { d.got[1] = h->rd_off[1]; d.got[2] = h->rd_off[2]; }
  uint64_t base[3] = { 0, d.got[1], d.got[2] };
  // string sinks: start from NULL or from a non-empty heap string owned by the caller
  // The two `char *` variables live in the runner, so their *addresses* are the same from one drain/run to the next, as with a
  // program that keeps one output variable.  With v[0] == 1 the string left by the previous drain/run is re-used after an
  // edit in place (cut back to a prefix of 'x's) instead of starting from a fresh allocation.
  char *&ostr = str_slot[0], *&estr = str_slot[1];
  bool reuse = !op.v.empty() && op.v[0] == 1;
  size_t init_len_s[3] = { 0, (size_t) op.e, (size_t) op.e };
  auto mkstr = [&](size_t n) -> char * {
    if (!n) return nullptr;
    char *p = (char *) simk_malloc(n + 1);
    memset(p, 'x', n);
    p[n] = 0;
    return p;
  };
  auto prepare = [&](char *&slot, bool wanted, int s) {
    if (slot && !(reuse && wanted)) { api->free_(slot); slot = nullptr; }
    if (!wanted) return;
    if (slot) {
      size_t L = strlen(slot), n = init_len_s[s] < L ? init_len_s[s] : L;
      memset(slot, 'x', n);
      slot[n] = 0;
      init_len_s[s] = n;
      probe(P_string_reused_in_place);
    } else slot = mkstr(init_len_s[s]);
  };
  prepare(ostr, ok == 1, 1);
  prepare(estr, ek == 1, 2);
  ShimRet r;
  StartSpec sp;
  std::vector<const char *> argv;
  ShimOptions so;
  std::vector<const char *> envv;
  std::vector<uint8_t> input;
  if (is_run) {
    if (op.spec < 0 || (size_t) op.spec >= plan.starts.size()) return;
    sp = plan.starts[(size_t) op.spec];
    argv.push_back(prog_string(sp.prog));
    for (auto &a : sp.args) argv.push_back(a.c_str());
    argv.push_back(nullptr);
    so.in.type = sp.in.type; so.out.type = sp.out.type; so.err.type = sp.err.type;
    so.parent = sp.parent; so.discard = sp.discard;
    so.deadline = sp.deadline;
    memcpy(so.stop, sp.stop, sizeof so.stop);
    so.nonblocking = sp.nonblocking;
    so.fork = sp.fork;
    if (sp.input_size >= 0) {
      input.resize((size_t) sp.input_size + 1);
      for (int64_t i = 0; i < sp.input_size; i++) input[(size_t) i] = k->byte_at(1000 - 1, 0, (uint64_t) i);
      so.input = input.data(); so.input_size = (size_t) sp.input_size;
    }
    t->next_spec = sp.child;
  }
  size_t nprocs0 = k->procs.size();
  api_begin(t, idx, op.h, h && h->st == LS_RUNNING ? h->uid : -1);
  if (is_run) r = api->run(argv.data(), so, (int) op.f, ok, ek, sink_cb, &d, &ostr, &estr);
  else r = api->drain(hp, ok, ek, sink_cb, &d, &ostr, &estr);
  api_end(t);
  res.raw = r;
  res.ret = shim_norm(r);
  res.t1_ns = k->now_ns;
  res.parked = t->op_parked;
  res.parked_ns = t->op_parked_ns;
  res.calls = t->op_calls;
  res.ran = true;
  t->op = -1;
  long long v = res.ret;
  bool injected = false;
  for (auto &f : k->faults) if (f.fired && f.op == idx) injected = true;
  tuple((uint64_t) op.kind, (uint64_t) st0, (uint64_t) (v < 0 ? -v : v), (uint64_t) (ok * 8 + ek) * 4 + (uint64_t) (d.fail_at > 0));

  Proc *c = h ? proc_of(*h) : nullptr;
  if (is_run) for (size_t i = nprocs0; i < k->procs.size(); i++) if (k->procs[i]->start_op == idx) c = k->procs[i];
  auto release_strings = [&]() {
    // kept for the next drain/run of the plan if that one wants to continue with them
    bool keep = (size_t) idx + 1 < plan.ops.size() && (plan.ops[(size_t) idx + 1].kind == OP_DRAIN || plan.ops[(size_t) idx + 1].kind == OP_RUN) &&
                !plan.ops[(size_t) idx + 1].v.empty() && plan.ops[(size_t) idx + 1].v[0] == 1 && plan.w.binding == 0;
    if (keep) return;
    if (ostr) { api->free_(ostr); ostr = nullptr; }
    if (estr) { api->free_(estr); estr = nullptr; }
  };
  auto check_string = [&](const char *sname, char *str, int s, bool complete) {
    // final string == previous content ++ received bytes, NUL-terminated
    const size_t init_len = init_len_s[s];
    if (!str && init_len > 0)
      viol("C16", "string-sink-lost-string", sname, fmt("the caller's string (%zu bytes before the call) is NULL afterwards (drain returned %s)", init_len, en(v).c_str()), idx);
    if (!c) return;
    size_t len = str ? strlen(str) : 0;
    uint64_t streamed = 0;
    if (str) {
      if (len < init_len) { viol("C16", "string-sink-lost-prefix", sname, "the string sink lost the content it had before", idx); return; }
      for (size_t i = 0; i < init_len; i++) if (str[i] != 'x') { viol("C16", "string-sink-lost-prefix", sname, "the previous content of the string was modified", idx); return; }
      streamed = len - init_len;
      // both streams may go to one string only when each has its own; compare with position coding (NUL bytes end strlen early: tolerate shorter)
      for (size_t i = 0; i < streamed; i++) {
        uint8_t want = k->byte_at(c->uid, s, base[s] + i);
        if ((uint8_t) str[init_len + i] != want) { viol("C16", "string-sink-corrupted", sname, fmt("byte %zu of the accumulated string differs from the child's output", i), idx); return; }
      }
    }
    if (complete) {
      // everything the child wrote must be there up to the first NUL byte of the payload
      uint64_t total = c->out_off[s] >= base[s] ? c->out_off[s] - base[s] : 0;
      uint64_t first_nul = total;  // payload bytes are never NUL (Kernel::byte_at)
      if (streamed != first_nul)
        viol("C16", "string-sink-incomplete", sname, fmt("the string holds %llu payload bytes, the child wrote %llu (first NUL at %llu)", (unsigned long long) streamed,
                                                        (unsigned long long) total, (unsigned long long) first_nul), idx);
    }
  };

  if (!is_run && (st0 == LS_NONE)) {
    if (v != C.EINVAL_) viol("C14", "misuse-not-rejected", "op=drain/state=null", fmt("drain(NULL) returned %s", en(v).c_str()), idx);
    release_strings();
    return;
  }
  if (ok == 6 || ek == 6) {
    if (v != C.EINVAL_) viol("C14", "misuse-not-rejected", "op=drain/state=null-sink", fmt("drain with a sink without function returned %s", en(v).c_str()), idx);
    release_strings();
    return;
  }
  if (is_run && v < 0 && (!c || !c->image) && d.ncalls == 0) {  // start failed inside run
    release_strings();
    return;
  }
  bool piped1, piped2;
  if (h) { piped1 = h->open_[1]; piped2 = h->open_[2]; }
  else {
    int eff[3];
    StartSpec s2 = sp;
    if (op.f == 0 && !s2.discard && !s2.file && !s2.path) s2.parent = true;
    resolve_redirects(s2, eff);
    piped1 = eff[1] == C.R_PIPE; piped2 = eff[2] == C.R_PIPE;
  }
  // ---- protocol over the recorded sink calls (callback sinks only see their own calls)
  std::vector<SinkCall> &cs = d.calls;
  std::string cfg = fmt("out=%d/err=%d", ok, ek);
  bool cb_out = ok == 0, cb_err = ek == 0;
  size_t pos = 0;
  bool failed_by_sink = d.fail_at > 0 && d.ncalls >= d.fail_at;
  if (d.corrupt) viol("C16", "sink-data-corrupted", cfg, "a sink received bytes that differ from what the child wrote on that stream at that offset", idx);
  if (st0 == LS_NEW && !is_run) { /* drain before start: sinks get the initial calls, then the closed-pipe error ends it with 0 */ }
  if (cb_out && !(injected && v < 0 && cs.empty())) {
    if (cs.size() <= pos || cs[pos].which != 0 || cs[pos].tag != C.STREAM_IN || cs[pos].size != 0)
      viol("C16", "initial-call-missing", "sink=out", "the first sink call must go to the out sink with the input tag and size 0", idx);
    else pos++;
  }
  if (cb_err && !(failed_by_sink && d.fail_at == 1 && cb_out) && !(injected && v < 0 && cs.size() == pos)) {
    if (cs.size() <= pos || cs[pos].which != 1 || cs[pos].tag != C.STREAM_IN || cs[pos].size != 0)
      viol("C16", "initial-call-missing", "sink=err", "the second sink call must go to the err sink with the input tag and size 0", idx);
    else pos++;
  }
  int closes[3] = { 0, 0, 0 };
  bool after_close[3] = { false, false, false };
  for (size_t i = pos; i < cs.size(); i++) {
    int s = cs[i].tag == C.STREAM_OUT ? 1 : cs[i].tag == C.STREAM_ERR ? 2 : 0;
    if (s == 0) { viol("C16", "bad-tag", cfg, fmt("sink call %zu carries tag %d", i, cs[i].tag), idx); continue; }
    if (cs[i].which != s - 1) viol("C16", "wrong-sink", fmt("stream=%d", s), fmt("a chunk of stream %d was passed to the %s sink", s, cs[i].which ? "err" : "out"), idx);
    if (after_close[s]) viol("C16", "call-after-close", fmt("stream=%d", s), "a sink was called again after its stream's closing call", idx);
    if (cs[i].size == 0) { closes[s]++; after_close[s] = true; }
  }
  if (failed_by_sink) {
    if (d.ncalls == 1) probe(P_sink_fail_first); else if (cs.back().size == 0) probe(P_sink_fail_close); else probe(P_sink_fail_mid);
    if (d.ncalls != d.fail_at) viol("C16", "sink-called-after-failure", cfg, "a sink was called again after a sink returned non-zero", idx);
    if (!is_run && v != d.fail_value) viol("C16", "sink-result-not-returned", cfg, fmt("a sink returned %d but drain returned %s", d.fail_value, en(v).c_str()), idx);
    if (is_run && d.fail_value < 0 && v != d.fail_value) viol("C16", "sink-result-not-returned", cfg, fmt("a sink returned %d but run returned %s", d.fail_value, en(v).c_str()), idx);
  } else if (!injected && (is_run ? true : true)) {
    long long dv = v;
    bool drain_ok = is_run ? (v >= 0 || v == C.ETIMEDOUT_) : v == 0;
    if (!is_run) {
      if (dv == 0) {
        if ((piped1 && cb_out && closes[1] != 1) || (piped2 && cb_err && closes[2] != 1))
          viol("C16", "returned-zero-before-close", cfg, "drain returned 0 although a piped stream did not get its closing call", idx);
        if (c && piped1 && cb_out && d.got[1] != c->out_off[1] && c->st != Proc::RUNNING)
          viol("C02", "drain-lost-output", "stream=1", "drain returned 0 although not every byte the child wrote on stdout was delivered", idx),
          viol("C16", "output-incomplete", "stream=1", fmt("out sink received %llu bytes, the child wrote %llu", (unsigned long long) d.got[1], (unsigned long long) c->out_off[1]), idx);
        if (c && piped2 && cb_err && d.got[2] != c->out_off[2] && c->st != Proc::RUNNING)
          viol("C02", "drain-lost-output", "stream=2", "drain returned 0 although not every byte the child wrote on stderr was delivered", idx),
          viol("C16", "output-incomplete", "stream=2", fmt("err sink received %llu bytes, the child wrote %llu", (unsigned long long) d.got[2], (unsigned long long) c->out_off[2]), idx);
      } else if (dv == C.ETIMEDOUT_) {
        if (!h || h->dl_lo_ms < 0 || ms(res.t1_ns) < h->dl_lo_ms)
          viol("C16", "timeout-without-deadline", cfg, "drain returned the timeout error although no deadline has expired", idx);
      } else if (dv > 0 || dv < 0) {
        viol("C16", "unexpected-result", cfg, fmt("drain returned %s without a sink failure, deadline or injected error", en(dv).c_str()), idx);
      }
      (void) drain_ok;
    }
  }
  if (ok == 1) check_string("sink=out", ostr, 1, !is_run && v == 0 && piped1 && !injected && c && c->st != Proc::RUNNING);
  if (ek == 1) check_string("sink=err", estr, 2, !is_run && v == 0 && piped2 && !injected && c && c->st != Proc::RUNNING);
  if (injected && v == C.ENOMEM_) {
    bool first = true;
    for (auto &f : k->faults) if (f.fired && f.op == idx && f.kind == K_realloc) first = f.nth == 1;
    probe(first ? P_realloc_fail_first : P_realloc_fail_later);
  }
  // ---- model bookkeeping
  if (h && (h->st == LS_RUNNING || h->st == LS_EXITED)) {
    if (cb_out) h->rd_off[1] = d.got[1]; else if (c) h->rd_off[1] = c->out_off[1];
    if (cb_err) h->rd_off[2] = d.got[2]; else if (c) h->rd_off[2] = c->out_off[2];
    // after drain the library may have closed streams: re-derive from ground truth (which LIB pipe ends are still open)
    for (int s = 1; s <= 2; s++) {
      if (!h->open_[s]) continue;
      Pipe *pp = pipe_by_id(h->pipe_id[s]);
      bool still = false;
      for (size_t fd = 0; fd < k->caller->fds.size(); fd++) {
        FdEnt &e = k->caller->fds[fd];
        if (e.ofd && e.ofd->pipe == pp && e.ofd->kind == OFD::PIPE_R && e.owner == OWN_LIB) still = true;
      }
      if (!still) h->open_[s] = false;
      else if (!cb_out || !cb_err) {
        // string / discard sinks: the data consumed is not observable byte by byte; resynchronise the offset with the pipe
        if (pp) h->rd_off[s] = pp->total_r;
      }
    }
  }
  // ---- run: status or first error, resources released
  if (is_run) {
    if (v >= 0) {
      if (!c || c->st != Proc::REAPED) viol("C16", "run-status-without-exit", "", fmt("run returned %lld but the child has not exited and been reaped", v), idx);
      else if (v != expected_status(c)) viol("C16", "run-wrong-status", "", fmt("run returned %lld, the child's status is %d", v, expected_status(c)), idx);
      // a status means drain came back with 0: both piped streams were read to their end
      if (c && c->image && !failed_by_sink) {
        for (int sfd = 1; sfd <= 2; sfd++) {
          auto it = c->image->fds.find(sfd);
          if (it == c->image->fds.end() || it->second.kind != OFD::PIPE_W) continue;
          if ((sfd == 1 && !piped1) || (sfd == 2 && !piped2 && !(piped1 && c->image->fds.count(1) && c->image->fds[1].pipe_id == it->second.pipe_id))) continue;
          Pipe *pp = pipe_by_id(it->second.pipe_id);
          if (pp && pp->len > 0)
            viol("C16", "run-did-not-drain", fmt("out=%d/err=%d", ok, ek), fmt("run returned status %lld with %zu bytes of the child's stream %d never read", v, pp->len, sfd), idx);
        }
      }
    }
    for (size_t fd = 0; fd < k->caller->fds.size(); fd++) {
      FdEnt &e = k->caller->fds[fd];
      if (e.ofd && e.owner == OWN_LIB && e.made_op == idx) viol("C05", "descriptor-leak", "made-by=run", fmt("descriptor %zu opened by run is still open", fd), idx);
    }
  }
  release_strings();
}
