// Plan execution: world setup, thread bodies, kernel hooks (monitors), final checks.
#include "runner_state.hpp"

#include <cstdarg>
#include <cstdio>
#include <cstdlib>
#include <fcntl.h>
#include <signal.h>

extern "C" char **environ;

Runner *G = nullptr;

const char *const probe_name[P_COUNT] = {
#define X(n) #n,
  PROBES(X)
#undef X
};

const char *const op_name[OP_COUNT] = { "new", "start", "pid", "write", "read", "close", "poll", "wait", "terminate", "kill", "stop",
                                        "drain", "run", "destroy", "strerror", "sleep", "userfd", "probe" };

std::string fmt(const char *f, ...) {
  char buf[512];
  va_list ap;
  va_start(ap, f);
  vsnprintf(buf, sizeof buf, f, ap);
  va_end(ap);
  return buf;
}

void Runner::viol(const char *prop, const std::string &cls, const std::string &sigrest, const std::string &detail, int op) {
  if (out.viols.size() >= 64) return;
  // plans with several caller threads: corruption of a stream, a missing end-of-file or a foreign close is cross-talk between
  // children (C20) as well as a violation of the single-threaded property
  static const char *const xt[] = { "stdin-corrupted", "stdin-duplicated", "stdin-lost", "no-eof-after-close", "output-corrupted", "wrong-status", "double-close", "foreign-close", "closed-stream-not-reported", "closed-error-on-open-stdin", "wrong-working-directory", "wrong-program-resolved",
                                     "environment-differs", "descriptor-inherited", "cwd-changed", "environ-changed", "stream-misconnected", "wrong-error", "signal-mask-changed",
                                     "child-mask-not-empty", "child-umask-differs", "blocks-past-bound", "wait-deadline-early", "deadline-event-early", "deadline-missed", "wait-timeout-early",
                                     "sink-data-corrupted", "output-incomplete", "reap-of-foreign-or-reaped", "reap-of-nonpositive-pid", "signal-to-foreign-or-reaped", "signal-to-nonpositive-pid", "no-status-for-dead-child" };
  if (tpos.size() > 1 && strcmp(prop, "C20") != 0)
    for (const char *c : xt)
      if (cls == c) { viol("C20", "cross-talk-" + cls, sigrest, detail, op); break; }
  // the stop sequence reproc_destroy runs is a stop request like any other: what the C15 model finds there is reported for C07 too
  if (!strcmp(prop, "C15") && cls.compare(0, 5, "stop-") == 0) viol("C07", cls, sigrest.empty() ? "via=destroy" : sigrest + "/via=destroy", detail, op);
  Viol v;
  v.prop = prop;
  v.cls = cls;
  v.sig = std::string(prop) + "/" + cls + (sigrest.empty() ? "" : "/" + sigrest);
  if (plan.w.low_fds != 7 && v.sig.find("low-fds=") == std::string::npos) v.sig += fmt("/low-fds=%d", plan.w.low_fds);
  if (K->n_stepped_reads > 0 && (!strcmp(prop, "C07") || !strcmp(prop, "C08") || !strcmp(prop, "C15") || !strcmp(prop, "C16"))) v.sig += "/after-clock-step";
  v.detail = detail;
  v.op = op;
  out.viols.push_back(v);
  if (K->keep_log) K->logrec(K_api, 999, op, (int64_t) out.viols.size(), 0, 0);
}

std::string Runner::fault_tag(int op) {
  std::set<std::string> tags;
  for (auto &f : K->faults)
    if (f.fired && f.op == op) tags.insert(fmt("%s@%s", kind_name[f.kind], f.child ? "child" : "parent"));
  if (tags.empty()) return "fault=none";
  std::string r = "fault=";
  for (auto &t : tags) { if (r.size() > 6) r += "+"; r += t; }
  return r;
}

void Runner::tuple(uint64_t a, uint64_t b, uint64_t c, uint64_t d) {
  uint64_t h = (a * 1000003ull + b) * 1000003ull + c;
  h = h * 1000003ull + d;
  out.tuples.push_back(h);
}

// ------------------------------------------------------------------ options -> effective redirects
static bool redir_is_set(const RedirSpec &r) { return r.type || r.handle || r.file || r.path; }

static bool resolve_one(RedirSpec r, int stream, bool parent, bool discard, int sh_file, int sh_path, const ShimConsts &C, int *eff) {
  if (sh_file) {
    if (redir_is_set(r)) return false;
    if (parent || discard || sh_path) return false;
    r.type = C.R_FILE; r.file = sh_file;
  }
  if (sh_path) {
    if (redir_is_set(r)) return false;
    if (parent || discard || sh_file) return false;
    r.type = C.R_PATH; r.path = sh_path;
  }
  if (r.type == C.R_HANDLE || r.handle) {
    if (!(r.type == C.R_DEFAULT || r.type == C.R_HANDLE)) return false;
    if (!r.handle) return false;
    if (r.file || r.path) return false;
    r.type = C.R_HANDLE;
  }
  if (r.type == C.R_FILE || r.file) {
    if (!(r.type == C.R_DEFAULT || r.type == C.R_FILE)) return false;
    if (!r.file) return false;
    if (r.handle || r.path) return false;
    r.type = C.R_FILE;
  }
  if (r.type == C.R_PATH || r.path) {
    if (!(r.type == C.R_DEFAULT || r.type == C.R_PATH)) return false;
    if (!r.path) return false;
    if (r.handle || r.file) return false;
    r.type = C.R_PATH;
  }
  if (r.type == C.R_DEFAULT) {
    if (parent && discard) return false;
    if (parent) r.type = C.R_PARENT;
    else if (discard) r.type = C.R_DISCARD;
    else r.type = stream == 2 ? C.R_PARENT : C.R_PIPE;
  }
  if (r.type == C.R_STDOUT && stream != 2) return false;
  if (r.type < 0 || r.type > C.R_PATH) return false;
  *eff = r.type;
  return true;
}

static ShimConsts g_consts_cache;
static bool g_consts_ok = false;

bool resolve_redirects(const StartSpec &s, int eff[3]) {
  if (!g_consts_ok) { g_consts_cache = shim_c.consts(); g_consts_ok = true; }
  const ShimConsts &C = g_consts_cache;
  if (!resolve_one(s.in, 0, s.parent, s.discard, 0, 0, C, &eff[0])) return false;
  if (!resolve_one(s.out, 1, s.parent, s.discard, s.file, s.path, C, &eff[1])) return false;
  if (!resolve_one(s.err, 2, s.parent, s.discard, s.file, s.path, C, &eff[2])) return false;
  return true;
}

bool spec_valid(const StartSpec &s, int eff[3]) {
  if (!resolve_redirects(s, eff)) return false;
  const ShimConsts &C = g_consts_cache;
  if (s.input_size >= 0 && !s.input_bad && eff[0] != C.R_PIPE) return false;
  if (s.input_bad) return false;
  if (s.argv_empty) return false;  // no program with or without fork mode
  if (s.fork != s.argv_null) return false;
  if (!s.fork && s.prog == 8) { /* empty program string: argv[0] non-NULL, accepted by the options */ }
  return true;
}

// ------------------------------------------------------------------ setup
uint64_t Runner::environ_hash() {
  uint64_t h = 1469598103934665603ull;
  for (char **e = environ; e && *e; e++) {
    for (const char *p = *e; *p; p++) h = (h ^ (uint8_t) *p) * 1099511628211ull;
    h = (h ^ 0xff) * 1099511628211ull;
  }
  return h;
}

void Runner::setup() {
  Kernel *k = K;
  k->reset(plan.w.k, plan.seed);
  k->hooks = this;
  k->keep_log = opts.keep_log;
  k->ch.rng = Rng::stream(plan.seed, "sched");
  k->ch.use_replay = plan.use_sched;
  k->ch.replay = plan.sched;
  api = plan.w.binding == 1 ? &shim_cxx : &shim_c;
  C = api->consts();
  // file system
  int bin = 0, err = 0;
  bin = k->vfs_lookup(0, "/bin", &err);
  n_prog_bin = k->vfs_add(bin, "prog", VNode::EXEC);
  k->vfs_add(bin, "noexec", VNode::NOEXEC);
  int usr = k->vfs_add(0, "usr", VNode::DIR);
  int usrbin = k->vfs_add(usr, "bin", VNode::DIR);
  n_prog_usr = k->vfs_add(usrbin, "prog", VNode::EXEC);
  k->vfs_add(usrbin, "tool", VNode::EXEC);
  work_node = k->vfs_add(0, "work", VNode::DIR);
  n_prog_work = k->vfs_add(work_node, "prog", VNode::EXEC);
  int wsub = k->vfs_add(work_node, "sub", VNode::DIR);
  n_prog_worksub = k->vfs_add(wsub, "prog", VNode::EXEC);
  int ro = k->vfs_add(0, "ro", VNode::DIR);
  k->vfs[(size_t) ro].writable = false;
  int tmp = k->vfs_lookup(0, "/tmp", &err);
  n_existing = k->vfs_add(tmp, "existing", VNode::FILE);
  k->vfs_add(tmp, "userfile", VNode::FILE);
  // parent working directory
  cwd_node = k->vfs_mkdirs(0, plan.w.cwd_depth, (size_t) plan.w.cwd_comp, 'd');
  k->caller->cwd = cwd_node;
  n_prog_cwd = k->vfs_add(cwd_node, "prog", VNode::EXEC);
  int csub = k->vfs_add(cwd_node, "sub", VNode::DIR);
  n_prog_sub = k->vfs_add(csub, "prog", VNode::EXEC);
  int chid = k->vfs_add(cwd_node, ".hidden", VNode::DIR);
  n_prog_hidden = k->vfs_add(chid, "prog", VNode::EXEC);
  const std::string cwd_name = k->vfs[(size_t) cwd_node].name;  // copy: vfs_add may reallocate the node vector
  prog_dotdot = "../" + cwd_name + "/prog";
  { int d1 = k->vfs_add(cwd_node, "hidden", VNode::DIR); k->vfs_add(d1, "prog", VNode::EXEC); int d2 = k->vfs_add(cwd_node, cwd_name, VNode::DIR); k->vfs_add(d2, "prog", VNode::EXEC); }
  // decoys: the same relative spellings must not resolve below the child's working directory
  { int wh = k->vfs_add(work_node, ".hidden", VNode::DIR); k->vfs_add(wh, "prog", VNode::EXEC); int wn = k->vfs_add(work_node, cwd_name, VNode::DIR); k->vfs_add(wn, "prog", VNode::EXEC); int hid = k->vfs_add(work_node, "hidden", VNode::DIR); k->vfs_add(hid, "prog", VNode::EXEC); }
  // descriptors
  for (int fd = 0; fd < 3; fd++)
    if (plan.w.low_fds & (1 << fd)) { k->user_open_at(fd, OFD::TTY); user_fds.insert(fd); user_ofd[fd] = k->fdent(k->caller, fd)->ofd->id; }
  for (auto &x : plan.w.extra) {
    int fd = x.fd;
    if (fd < 0 || (uint64_t) fd >= k->caller->rlim_cur || k->fdent(k->caller, fd)) continue;
    OFD *o;
    if (x.kind == 1 || x.kind == 2) {
      Pipe *pp = k->pipe_new();
      o = k->ofd_new(x.kind == 1 ? OFD::PIPE_R : OFD::PIPE_W);
      o->pipe = pp;
      o->acc = x.kind == 1 ? O_RDONLY : O_WRONLY;
    } else if (x.kind == 3) {
      o = k->ofd_new(OFD::FILE);
      o->vnode = n_existing;
      o->acc = O_RDWR;
    } else {
      o = k->ofd_new(OFD::NUL);
      o->acc = O_RDWR;
    }
    k->fd_install(k->caller, fd, o, x.cloexec, OWN_USER);
    user_fds.insert(fd);
    user_ofd[fd] = o->id;
    if ((uint64_t) fd == k->caller->rlim_cur - 1 && !x.cloexec) probe(P_limit_minus_1_open);
  }
  // environment
  saved_environ = environ;
  for (auto &e : plan.w.parent_env) {
    char *s = new char[e.size() + 1];
    memcpy(s, e.c_str(), e.size() + 1);
    env_store.push_back(s);
    env_arr.push_back(s);
  }
  env_arr.push_back(nullptr);
  environ = env_arr.data();
  env_hash0 = environ_hash();
  // signals
  for (int s : plan.w.ignored) if (s >= 1 && s <= 64 && s != SIGKILL && s != SIGSTOP) k->caller->disp[s] = D_IGN;
  for (int s : plan.w.handled) if (s >= 1 && s <= 64 && s != SIGKILL && s != SIGSTOP) k->caller->disp[s] = D_HANDLER;
  if (plan.w.sa_flags) {
    for (int s = 1; s <= 64; s++) if (k->caller->disp[s] == D_HANDLER) k->caller->sa_flags[s] = SA_RESTART | SA_SIGINFO;
    if (k->caller->disp[SIGCHLD] == D_DFL) k->caller->sa_flags[SIGCHLD] = SA_NOCLDWAIT;
  }
  // README: ignoring SIGPIPE is required for the closed-pipe error to be observable; plans that never write may leave it alone
  k->caller->disp[SIGPIPE] = plan.w.sigpipe == 0 ? D_IGN : plan.w.sigpipe == 2 ? D_HANDLER : D_DFL;
  k->specs = plan.children;
  k->faults = plan.faults;
  for (auto &f : k->faults) f.fired = false;
  int maxh = -1;
  for (auto &op : plan.ops) {
    if (op.h > maxh) maxh = op.h;
    if (op.kind == OP_POLL) for (size_t i = 0; i + 1 < op.v.size(); i += 2) if (op.v[i] > maxh) maxh = (int) op.v[i];
  }
  hs.assign((size_t) (maxh + 1), HState());
  out.res.assign(plan.ops.size(), OpRes());
  skipped.assign(plan.ops.size(), false);
  int nthreads = 1;
  for (auto &op : plan.ops) if (op.thread + 1 > nthreads) nthreads = op.thread + 1;
  octx.assign((size_t) nthreads, OpCtx());
  tpos.assign((size_t) nthreads, 0);
  for (int i = 0; i < nthreads; i++) {
    Thread *t = k->thread_new([](void *arg) { G->thread_main((int) (intptr_t) arg); }, (void *) (intptr_t) i);
    uint64_t m = plan.w.mask;
    if (nthreads > 1 && i > 0) m = (m << (7 * i)) | (m >> (64 - 7 * i));  // different threads, different masks
    t->mask = m & ~((1ull << (SIGKILL - 1)) | (1ull << (SIGSTOP - 1)) | (1ull << 31) | (1ull << 32));
  }
}

void Runner::teardown() {
  environ = saved_environ;
  for (char *s : env_store) delete[] s;
  env_store.clear();
  for (auto &kv : K->files) delete[] (char *) kv.first;
  K->files.clear();
  K->hooks = nullptr;
}

void Runner::thread_main(int tid) {
  Thread *t = K->threads[(size_t) tid];
  for (size_t i = 0; i < plan.ops.size(); i++) {
    if (plan.ops[i].thread != tid) continue;
    tpos[(size_t) tid] = i;
    exec_op(t, (int) i);
  }
  tpos[(size_t) tid] = plan.ops.size();
}

// ------------------------------------------------------------------ hooks (live monitors)
void Runner::on_libcall(Thread *t, Kind k, bool child_side) {
  if (t->op == opts.trace_op || opts.trace_op == -2) {
    CallSite cs;
    cs.op = t->op; cs.child = child_side; cs.kind = k; cs.nth = (int) t->ncalls[child_side ? 1 : 0][k];
    out.sites.push_back(cs);
  }
}

void Runner::on_preempt(Thread *t) {
  if (t->op >= 0 && t->api_depth > 0 && plan.ops[(size_t) t->op].kind == OP_START && t->ncalls[0][K_pipe] > 0 && t->ncalls[0][K_fork] == 0) probe(P_preempt_in_pipe_init);
}

// The forked child unblocks signals: from this instant a pending or arriving signal is delivered - to whatever the
// disposition is right now.  A handler of the caller still installed would run inside the child.
void Runner::on_child_unblock(Thread *t, Proc *c, uint64_t unblocked) {
  if (t->op < 0) return;
  for (int sg = 1; sg < 32; sg++) {
    if (!(unblocked & (1ull << (sg - 1))) || c->disp[sg] != D_HANDLER) continue;
    viol("C12", "handler-reachable-in-child", "", fmt("the forked child unblocked signal %d while the caller's handler for it was still installed", sg), t->op);
    return;
  }
}

void Runner::on_clock(Thread *t, int64_t msv) { octx[(size_t) t->tid].last_clock_ms = msv; }

void Runner::on_kill(Thread *t, int pid, int sig, Proc *target) {
  const char *what = sig == SIGTERM ? "term" : sig == SIGKILL ? "kill" : "other";
  const Op &op = plan.ops[(size_t) t->op];
  if ((op.kind == OP_TERMINATE && sig != SIGTERM) || (op.kind == OP_KILL && sig != SIGKILL))
    viol("C07", "wrong-signal", fmt("op=%s/sig=%d", op_name[op.kind], sig), fmt("%s sent signal %d", op_name[op.kind], sig), t->op);
  if (pid <= 0) {
    viol("C06", "signal-to-nonpositive-pid", fmt("op=%s/pid=%d/sig=%s", op_name[op.kind], pid, what),
         fmt("kill(%d, %d) issued by the library", pid, sig), t->op);
    return;
  }
  // a child that somebody else collected behind the library's back (injected ECHILD): the library cannot know its pid is gone
  if (t->expect_uid >= 0 && (size_t) t->expect_uid < K->procs.size() && K->procs[(size_t) t->expect_uid]->auto_reaped) return;
  bool own = target && (target->uid == t->expect_uid || ((op.kind == OP_START || op.kind == OP_RUN) && target->start_op == t->op));
  if (!own || target->st == Proc::REAPED || target->st == Proc::FOREIGN) {
    viol("C06", "signal-to-foreign-or-reaped", fmt("op=%s/sig=%s", op_name[op.kind], what),
         fmt("kill(%d, %d): target is %s, expected child uid %d", pid, sig,
             !target ? "no process" : target->st == Proc::FOREIGN ? "an unrelated process (pid reused)" : "another process", t->expect_uid),
         t->op);
    if (target && target->st == Proc::FOREIGN) probe(P_pid_reused_live_handle);
  }
}

void Runner::on_waitpid(Thread *t, int pid, int options, Proc *target) {
  (void) options;
  const Op &op = plan.ops[(size_t) t->op];
  if (pid <= 0) {
    viol("C06", "reap-of-nonpositive-pid", fmt("op=%s/pid=%d", op_name[op.kind], pid), fmt("waitpid(%d) issued by the library", pid), t->op);
    return;
  }
  if (t->expect_uid >= 0 && (size_t) t->expect_uid < K->procs.size() && K->procs[(size_t) t->expect_uid]->auto_reaped) return;
  bool ok = target && target->st != Proc::REAPED && target->st != Proc::FOREIGN &&
            (target->uid == t->expect_uid || (op.kind == OP_START || op.kind == OP_RUN ? target->start_op == t->op : false));
  if (!ok)
    viol("C06", "reap-of-foreign-or-reaped", fmt("op=%s", op_name[op.kind]),
         fmt("waitpid(%d): target is %s", pid, !target ? "no process" : target->st == Proc::FOREIGN ? "an unrelated process (pid reused)" : "not this handle's unreaped child"),
         t->op);
}

void Runner::on_close(Thread *t, Proc *p, int fd, const FdEnt *ent) {
  if (!p->is_caller) return;  // the forked child closes its own copies
  const Op &op = plan.ops[(size_t) t->op];
  if (!ent) {
    viol("C05", "double-close", fmt("op=%s", op_name[op.kind]), fmt("close(%d): descriptor is not open (already closed)", fd), t->op);
  } else if (ent->owner != OWN_LIB) {
    viol("C05", "foreign-close", fmt("op=%s", op_name[op.kind]), fmt("close(%d): descriptor was not opened by the library", fd), t->op);
  }
}

void Runner::on_park(Thread *t, Kind k) {
  if (t->op < 0 || t->api_depth == 0) return;
  const Op &op = plan.ops[(size_t) t->op];
  if (k == K_read) probe(P_read_parked);
  if (k == K_write) probe(P_write_parked);
  HState *h = op.h >= 0 && (size_t) op.h < hs.size() ? &hs[(size_t) op.h] : nullptr;
  if (op.kind == OP_START) {
    // (reaping the child of a failed start waits for a process that is already exiting: not a wait for the program)
    if (k != K_waitpid) viol("C17", "start-blocked", fmt("in=%s", kind_name[k]), fmt("reproc_start parked inside %s", kind_name[k]), t->op);
  } else if ((op.kind == OP_READ || op.kind == OP_WRITE) && h && h->nonblocking) {
    viol("C17", "nonblocking-call-blocked", fmt("op=%s/in=%s", op_name[op.kind], kind_name[k]),
         fmt("nonblocking %s parked inside %s", op_name[op.kind], kind_name[k]), t->op);
  } else if ((op.kind == OP_DRAIN || op.kind == OP_RUN) && (k == K_read || k == K_write) && tpos.size() == 1) {
    viol("C16", "drain-blocked-in-read", "", "drain/run parked inside read(): it only reads streams poll reported ready, so it can wait only in poll (where the deadline applies)", t->op);
  } else if (op.kind == OP_READ && k == K_read && t->op_read_bytes > 0) {
    // a read waits "only until data or end-of-file": with data already in hand it has nothing left to wait for
    viol("C17", "read-waits-with-data-in-hand", "", fmt("blocking read parked in read() again after it had already received %llu bytes", (unsigned long long) t->op_read_bytes), t->op);
  } else if (op.kind == OP_READ && k != K_read) {
    viol("C17", "read-waits-for-something-else", fmt("in=%s", kind_name[k]), fmt("blocking read parked inside %s", kind_name[k]), t->op);
  } else if (op.kind == OP_WRITE && k != K_write) {
    viol("C17", "write-waits-for-something-else", fmt("in=%s", kind_name[k]), fmt("blocking write parked inside %s", kind_name[k]), t->op);
  } else if (op.kind == OP_PID || op.kind == OP_CLOSE || op.kind == OP_TERMINATE || op.kind == OP_KILL || op.kind == OP_NEW ||
             op.kind == OP_STRERROR) {
    viol("C14", "unexpected-block", fmt("op=%s/in=%s", op_name[op.kind], kind_name[k]), "operation that never waits parked", t->op);
  }
}

// ------------------------------------------------------------------ final checks
// What the child of a handle saw on its stdin, compared with what the writes reported; run when the handle is destroyed and
// for the handles still alive at the end of the plan.
void Runner::check_child_streams(size_t hi) {
  HState &h = hs[hi];
  Proc *c = proc_of(h);
  if (!c) return;
  if (c->in_bad)
    viol("C02", "stdin-corrupted", "", fmt("child of handle %zu received bytes on stdin that differ from what was written", hi), h.start_op);
  if (c->in_off > h.wr_off + h.wr_inflight)
    viol("C02", "stdin-duplicated", "", fmt("child of handle %zu received %llu bytes but only %llu were accepted", hi,
                                           (unsigned long long) c->in_off, (unsigned long long) h.wr_off), h.start_op);
  if (c->in_eof && !c->in_gone && h.piped[0] && c->in_off != h.wr_off && !c->in_bad && !h.wr_inflight)
    viol("C02", "stdin-lost", "", fmt("child of handle %zu saw end-of-file after %llu bytes, %llu were accepted", hi,
                                     (unsigned long long) c->in_off, (unsigned long long) h.wr_off), h.start_op);
  if (c->reaps > 1) viol("C01", "reaped-twice", "", fmt("child of handle %zu was reaped %d times", hi, c->reaps), h.start_op);
}

void Runner::final_checks() {
  Kernel *k = K;
  for (char *&sp : str_slot) if (sp) { api->free_(sp); sp = nullptr; }
  bool clean = !k->hung && !k->capped && k->fatal.empty();
  // streams: no stdin corruption; EOF bookkeeping
  for (size_t hi = 0; hi < hs.size(); hi++) check_child_streams(hi);
  if (k->hung) {
    // classify the hang: waiting for a live child is the plan's business, anything else is a finding
    for (Thread *t : k->threads) {
      if (t->st == Thread::DONE || t->op < 0) continue;
      const Op &op = plan.ops[(size_t) t->op];
      HState *h = op.h >= 0 && (size_t) op.h < hs.size() ? &hs[(size_t) op.h] : nullptr;
      Proc *c = h ? proc_of(*h) : nullptr;
      if (op.kind == OP_RUN && !c) {
        for (Proc *p : k->procs) if (p->start_op == t->op) c = p;
      }
      bool child_alive = c && c->st == Proc::RUNNING;
      if (child_alive) { probe(P_hang_expected); continue; }
      const char *prop = op.kind == OP_READ || op.kind == OP_WRITE || op.kind == OP_DRAIN || op.kind == OP_RUN ? "C02"
                         : op.kind == OP_DESTROY ? "C15" : op.kind == OP_STOP || op.kind == OP_WAIT ? "C01" : "C14";
      viol(prop, "hang-without-live-child", fmt("op=%s", op_name[op.kind]),
           fmt("thread %d is blocked forever in %s although the child it concerns is %s", t->tid, op_name[op.kind],
               c ? "dead" : "absent"), t->op);
    }
    // a child blocked on stdin after the parent closed it
    for (size_t hi = 0; hi < hs.size(); hi++) {
      HState &h = hs[hi];
      Proc *c = proc_of(h);
      if (!c || c->st != Proc::RUNNING || !c->spec || c->pc >= c->spec->script.size()) continue;
      const Step &s = c->spec->script[c->pc];
      bool reading = s.k == Step::READ || s.k == Step::READ_EOF || (s.k == Step::ECHO && c->prog == 0);
      if (reading && h.piped[0] && h.in_closed && !c->sleeping)
        viol("C02", "no-eof-after-close", "", fmt("child of handle %zu is still waiting for stdin after the parent closed it", hi), h.start_op);
    }
  }
  if (!clean) return;
  // every handle destroyed?
  bool all_destroyed = true;
  for (auto &h : hs) if (h.st != LS_NONE) all_destroyed = false;
  if (all_destroyed) {
    for (size_t fd = 0; fd < k->caller->fds.size(); fd++) {
      FdEnt &e = k->caller->fds[fd];
      if (e.ofd && e.owner == OWN_LIB)
        viol("C05", "descriptor-leak", fmt("made-by=%s/%s", e.made_op >= 0 ? op_name[plan.ops[(size_t) e.made_op].kind] : "?", fault_tag(e.made_op).c_str()),
             fmt("descriptor %zu opened by the library in op %d is still open after every handle was destroyed", fd, e.made_op), e.made_op);
    }
    for (int fd : user_fds) {
      FdEnt *e = k->fdent(k->caller, fd);
      if (!e || e->ofd->id != user_ofd[fd])
        viol("C05", "user-descriptor-gone", "", fmt("descriptor %d owned by the caller is closed or replaced at the end", fd), -1);
    }
    for (auto &kv : k->heap) {
      if (kv.second.owner != OWN_LIB) continue;
      viol("C05", "memory-leak", fmt("made-by=%s/%s", kv.second.op >= 0 ? op_name[plan.ops[(size_t) kv.second.op].kind] : "?", fault_tag(kv.second.op).c_str()),
           fmt("block of %zu bytes allocated in op %d was never released", kv.second.size, kv.second.op), kv.second.op);
    }
  }
  for (Proc *p : k->procs) {
    if (p->is_caller || p->st != Proc::ZOMBIE) continue;
    if (p->handle < 0 || (size_t) p->handle >= hs.size()) continue;
    // zombie owed by the library: start failed on it, or its status was already returned
    bool failed_start = true;
    for (auto &h : hs) if (h.uid == p->uid) failed_start = false;
    if (failed_start && p->start_op >= 0 && out.res[(size_t) p->start_op].ran && out.res[(size_t) p->start_op].ret < 0)
      viol("C05", "zombie-after-failed-start", "", fmt("child pid %d forked by a failed start was never reaped", p->pid), p->start_op);
  }
}

// ------------------------------------------------------------------ library statics
// reproc's own .data/.bss live in the sections reproc_data / reproc_bss (see bin/build.sh).  They are restored to their
// load-time image before every plan, so state a change to the library keeps in a static cannot leak from one plan into
// the next and a plan stays a pure function of its JSON.
extern "C" {
extern char __start_reproc_data[] __attribute__((weak));
extern char __stop_reproc_data[] __attribute__((weak));
extern char __start_reproc_bss[] __attribute__((weak));
extern char __stop_reproc_bss[] __attribute__((weak));
}
extern "C" {
extern __thread char simk_tls_data_begin, simk_tls_data_end, simk_tls_bss_begin, simk_tls_bss_end;
}
static std::vector<char> g_img_data, g_img_bss, g_img_tdata;
static bool g_img_saved = false;

static void library_statics_reset() {
  char *d0 = __start_reproc_data, *d1 = __stop_reproc_data, *b0 = __start_reproc_bss, *b1 = __stop_reproc_bss;
  // the library's thread-local variables of the thread the plans run on (all simulated threads are coroutines of it): between
  // the marker variables of sim/tlsmark_*.cc, initialised ones and zero-initialised ones separately
  char *t0 = &simk_tls_data_begin + 1, *t1 = &simk_tls_data_end, *z0 = &simk_tls_bss_begin + 1, *z1 = &simk_tls_bss_end;
  if (!g_img_saved) {
    if (d0 && d1 > d0) { g_img_data.resize((size_t) (d1 - d0)); coro_raw_copy(g_img_data.data(), d0, g_img_data.size()); }
    if (b0 && b1 > b0) { g_img_bss.resize((size_t) (b1 - b0)); coro_raw_copy(g_img_bss.data(), b0, g_img_bss.size()); }
    if (t1 > t0) { g_img_tdata.resize((size_t) (t1 - t0)); coro_raw_copy(g_img_tdata.data(), t0, g_img_tdata.size()); }
    g_img_saved = true;
    return;
  }
  if (t1 > t0 && g_img_tdata.size() == (size_t) (t1 - t0)) coro_raw_copy(t0, g_img_tdata.data(), g_img_tdata.size());
  if (z1 > z0) { static std::vector<char> zeros; zeros.assign((size_t) (z1 - z0), 0); coro_raw_copy(z0, zeros.data(), zeros.size()); }
  if (!g_img_data.empty()) coro_raw_copy(d0, g_img_data.data(), g_img_data.size());
  if (!g_img_bss.empty()) coro_raw_copy(b0, g_img_bss.data(), g_img_bss.size());
}

// ------------------------------------------------------------------ entry
RunResult run_plan(const Plan &plan, const RunOpts &opts) {
  if (!K) K = new Kernel();
#if !defined(SIM_COV)  // the coverage counters live in the same sections
  library_statics_reset();
#endif
  Runner r(plan, opts);
  G = &r;
  r.setup();
  K->run();
  r.out.probes[P_getcwd_grew] += K->n_getcwd_erange;
  r.out.probes[P_data_at_death] += K->n_data_at_death;
  r.out.probes[P_descendant_left] += K->n_descendants;
  r.out.probes[P_thread_stalled] += K->n_stalls;
  r.out.probes[P_errno_clobbered_by_handler] += K->n_errno_clobbered;
  r.out.probes[P_wall_clock_stepped] += K->w.clock_step_at_ms >= 0 && K->now_ns >= K->w.clock_step_at_ms * 1000000 ? 1 : 0;  // whether or not the library reads that clock
  r.out.probes[P_reoccupied] += K->reoccupied.size();
  for (auto &f : K->faults) {
    if (!f.fired || f.err != EINTR) continue;
    if (f.kind == K_poll) r.out.probes[P_eintr_poll]++;
    if (f.kind == K_read) r.out.probes[P_eintr_read]++;
    if (f.kind == K_write) r.out.probes[P_eintr_write]++;
    if (f.kind == K_waitpid) r.out.probes[P_eintr_waitpid]++;
  }
  r.out.hung = K->hung;
  r.out.capped = K->capped;
  r.out.fatal = K->fatal;
  r.final_checks();
  r.out.log_hash = K->log_hash;
  r.out.sched_hash = K->sched_hash;
  r.out.sim_ns = K->now_ns;
  r.out.calls = K->total_calls;
  r.out.switches = K->switches;
  memcpy(r.out.fired, K->fired_by_kind, sizeof r.out.fired);
  memcpy(r.out.kind_calls, K->kind_calls, sizeof r.out.kind_calls);
  r.out.sched = K->ch.rec;
  if (opts.keep_log) r.out.log_text = K->render_log();
  r.teardown();
  G = nullptr;
  RunResult res = std::move(r.out);
  World w0;
  K->reset(w0, 0);
  return res;
}
