#include <cstdio>
#include "runner.hpp"
using namespace simk;
extern "C" __attribute__((used)) const char *__asan_default_options() { return "exitcode=77:detect_leaks=0:abort_on_error=0"; }
int main(int argc, char **argv) {
  if (!coro_selftest()) { fprintf(stderr, "coro selftest failed\n"); return 2; }
  Plan p; p.seed = 1; p.profile = "smoke";
  p.w.parent_env = { "PATH=/bin", "HOME=/root" };
  ChildSpec c; c.script.push_back(Step{ Step::WRITE, 1, 10, 4 }); c.script.push_back(Step{ Step::SLEEP, 1, 20, 0 }); c.script.push_back(Step{ Step::EXIT, 1, 7, 0 });
  p.children.push_back(c);
  StartSpec s; s.args = { "a", "b c" }; p.starts.push_back(s);
  auto op = [&](int k, int h, long long a = 0, long long b = 0) { Op o; o.kind = k; o.h = h; o.a = a; o.b = b; p.ops.push_back(o); };
  op(OP_NEW, 0); { Op o; o.kind = OP_START; o.h = 0; o.spec = 0; p.ops.push_back(o); }
  op(OP_PID, 0); op(OP_READ, 0, 1, 100); op(OP_READ, 0, 1, 100); op(OP_READ, 0, 1, 100); op(OP_READ, 0, 1, 100);
  op(OP_WAIT, 0, -1); op(OP_WAIT, 0, 0); op(OP_DESTROY, 0);
  RunOpts ro; ro.keep_log = true;
  RunResult r = run_plan(p, ro);
  printf("%s", r.log_text.c_str());
  for (size_t i = 0; i < r.res.size(); i++) printf("op %zu %s ret=%lld calls=%u parked=%d\n", i, op_name[p.ops[i].kind], r.res[i].ret, r.res[i].calls, r.res[i].parked);
  for (auto &v : r.viols) printf("VIOL %s %s : %s (op %d)\n", v.prop.c_str(), v.sig.c_str(), v.detail.c_str(), v.op);
  printf("hung=%d capped=%d fatal=%s hash=%llx\n", r.hung, r.capped, r.fatal.c_str(), (unsigned long long) r.log_hash);
  std::string js = p.to_json().dump(1);
  Json j; Plan q; bool ok = Json::parse(js, j) && Plan::from_json(j, &q);
  printf("json roundtrip %d same=%d\n", ok, ok && q.to_json().dump(1) == js);
  return 0;
}
