// simcheck: the check driver.  One process supervises N forked workers; every worker executes
// thousands of seeded plans in-process against reproc inside the simulated kernel.
#include <cerrno>
#include <chrono>
#include <cstdio>
#include <cstdlib>
#include <cstring>
#include <fcntl.h>
#include <fstream>
#include <sstream>
#include <poll.h>
#include <signal.h>
#include <sys/mman.h>
#include <sys/stat.h>
#include <sys/wait.h>
#include <unistd.h>
#include <tuple>
#include <unordered_set>

#include "check.hpp"

using namespace simk;

extern "C" __attribute__((used)) const char *__asan_default_options() { return "exitcode=77:detect_leaks=0:abort_on_error=0:detect_stack_use_after_return=0:quarantine_size_mb=4:thread_local_quarantine_size_kb=64:malloc_context_size=8"; }
extern "C" __attribute__((used)) const char *__ubsan_default_options() { return "print_stacktrace=1:halt_on_error=1:exitcode=77"; }
extern "C" __attribute__((used)) const char *__tsan_default_options() { return "exitcode=66:halt_on_error=1:report_signal_unsafe=0:ignore_interceptors_accesses=1:report_thread_leaks=0"; }

std::string tls_check(uint64_t seed);
std::string tls_free_running(uint64_t seed);
int conform_run(bool verbose);
int conform_dump_state();

#if defined(SIM_COV)
extern "C" void __gcov_dump(void);
#endif

static double now_s() { return std::chrono::duration<double>(std::chrono::steady_clock::now().time_since_epoch()).count(); }

static const PropCfg kProps[] = {
  { "C01", "C01", "exploration", 0, 120000, 600,
    "plan = one child ending with a stratified exit code 0..255 or signal 1..31 at a drawn virtual time + <=12 wait/stop/terminate/kill/poll/sleep ops placed around it; distinct = distinct event-log hash; non-trivial = the child was started" },
  { "C02", "C02", "exploration", 0, 60000, 900,
    "plan = scripted child writing position-coded bytes (sizes straddling the drawn pipe capacity up to multi-MiB) on stdout/stderr and consuming stdin, parent reading/polling/draining/writing with drawn buffer sizes, blocking or nonblocking, optional writer thread; distinct = distinct event-log hash; non-trivial = at least one payload byte moved" },
  { "C03", "C03", "exploration", 0, 60000, 600,
    "plan = one start with drawn argv/env bytes, env behaviour, working directory, program form and parent cwd depth (short .. beyond PATH_MAX), allocator/getcwd faults; oracle at the simulated exec; distinct = distinct event-log hash; non-trivial = start reached fork or failed in path construction" },
  { "C04", "C04", "fault_enumeration", 1, 3000, 900,
    "scenario = drawn start configuration (incl. unexecutable inputs); cases = the fault-free run plus one run per (call site of start on either side of fork, outcome of that call kind), plus call-site pairs (sampled in quick, complete for scenarios <= 70 sites in thorough) and second faults placed on the calls each error path makes after its first fault (48 sampled per scenario in quick, 2500 in thorough); distinct = distinct event-log hash; non-trivial = a fault fired or start failed" },
  { "C05", "C05", "fault_enumeration", 1, 4000, 900,
    "scenario = drawn API history ending in destroy (or a start scenario); cases = fault-free run plus one run per (library call site of any op, outcome), plus second faults on the calls each error path makes after its first fault (48 sampled per scenario in quick, 2500 in thorough), with the ownership ledger (descriptors, heap blocks, children) checked at every close/free and at the end; distinct = distinct event-log hash; non-trivial = a fault fired" },
  { "C06", "C06", "exploration", 0, 80000, 600,
    "plan = 1-3 handles, orders of start(with faults)/terminate/kill/wait/stop/destroy before and after exit and reap, aggressive pid reuse (squatter or recycle); monitor on every kill/waitpid argument; distinct = distinct event-log hash; non-trivial = a child was started" },
  { "C07", "C07", "exploration", 0, 150000, 900,
    "plan = stop triple stratified over all 5^3 action triples x boundary timeouts x child behaviour (exits at T, dies/exits on SIGTERM after d, ignores it) x deadline x handle state, directly or through destroy; checked against the executable stop model; distinct = distinct event-log hash; non-trivial = stop reached a wait" },
  { "C08", "C08", "exploration", 0, 100000, 900,
    "plan = 1-4 handles with colliding deadlines (none/future/expired) + polls over 1-6 sources in drawn order with timeouts 0/finite/infinite colliding with the deadlines, waits with 0/finite/DEADLINE; bound checked on the blocking call itself and on return; distinct = distinct event-log hash; non-trivial = a poll or wait ran on a started handle" },
  { "C09", "C09", "exploration", 0, 100000, 900,
    "plan = 1-4 children with per-stream states (idle/data/closed by child/closed by parent/not a pipe) and polls with every interest mask over 1-6 sources incl. empty ones; events compared with the kernel's ground truth at the instant the underlying poll returned; distinct = distinct event-log hash; non-trivial = a poll ran on a started handle" },
  { "C10", "C10", "exploration", 0, 94080, 600,
    "complete enumeration of in(7) x out(7) x err(8) x shorthand(5) x caller descriptors 0-2 open/closed (8) x nonblocking(2) = 31360 configurations (invalid shorthand combinations fall back to the explicit ones), enumerated three times: exec mode, fork mode, exec mode with one injected failure inside start (a start that still succeeds must be connected as requested); later rounds mix the three at random; oracle = identity and direction of descriptors 0/1/2 at the simulated exec / at the return of the forked copy; distinct = distinct event-log hash" },
  { "C11", "C11", "exploration", 0, 40000, 600,
    "plan = random extra caller descriptors (any number up to the limit, limit-1 included in a fixed fraction, with/without close-on-exec), descriptor limits 16..>1Mi, every redirect configuration, 1-4 threads starting children concurrently with pre-emption inside pipe creation; oracle = descriptor table at exec; distinct = distinct event-log hash" },
  { "C12", "C12", "fault_enumeration", 1, 3000, 900,
    "scenario = drawn start configuration x caller mask (random 64-bit) x ignored/handled signals; cases = fault-free run plus one run per (call site of start, outcome) excluding the mask-restoring call, plus sampled pairs and second faults on error-path calls; snapshot of mask/dispositions/cwd/environ around start and signal state at exec; distinct = distinct event-log hash" },
  { "C14", "C14", "exploration", 0, 150000, 900,
    "plan = 6-60 random ops over the whole API on 1-3 handles with arbitrary parameters, invalid/failing starts, fork mode, NULL handles, injected errors; every result compared with the life-cycle reference machine under ASan+UBSan; distinct = distinct event-log hash; non-trivial = at least one op ran on a started handle" },
  { "C15", "C15", "exploration", 0, 100000, 600,
    "plan = destroy on each of the 7 handle states (stratified by seed) x stop policy (default or stratified triple) x deadline x child behaviour; signal log time-stamps vs deadline, reaping, resources; distinct = distinct event-log hash; non-trivial = destroy ran on a started handle" },
  { "C16", "C16", "exploration", 0, 60000, 900,
    "plan = drain or run over children with drawn output volumes/interleavings/early closes, stderr piped/merged/elsewhere, callback/string/discard sinks failing at call k, realloc failure at growth step k, deadlines before/during/after output, EINTR; oracle over the recorded sink-call history; distinct = distinct event-log hash" },
  { "C17", "C17", "exploration", 0, 80000, 600,
    "plan = pipe state sweep (empty/partly filled/full/far side closed) x stream x nonblocking on/off x start-up input sizes around the capacity x child idle/slow/never reading; the scheduler observes whether a call parked; distinct = distinct event-log hash; non-trivial = a read/write ran on a started handle" },
  { "C19", "C19", "exploration", 2, 40000, 600,
    "plan = random API history (C14 generator, incl. faults) executed twice with identical seed/schedule/faults: through the C API and through reproc++; event-log hashes, per-op results and error-code mapping must agree; distinct = distinct event-log hash" },
  { "C20", "C20", "exploration", 0, 30000, 900,
    "plan = reader+writer(+stderr reader) threads on one echoing child, or 2-4 threads each running complete start/communicate/wait/destroy cycles, pre-empted at simulated-call granularity (probability 10-100%); cross-talk oracles in the asan lane, data races via TSan fibers in the tsan lane; distinct = distinct context-switch sequence hash" },
};

const PropCfg *prop_cfg(const std::string &id) {
  for (auto &p : kProps) if (id == p.id) return &p;
  return nullptr;
}

// ------------------------------------------------------------------ one case
static void diff_viols(const Plan &plan, const RunResult &a, const RunResult &b, std::vector<Viol> &out) {
  auto add = [&](const std::string &cls, const std::string &rest, const std::string &detail, int op) {
    Viol v; v.prop = "C19"; v.cls = cls; v.sig = "C19/" + cls + (rest.empty() ? "" : "/" + rest); v.detail = detail; v.op = op;
    out.push_back(v);
  };
  for (size_t i = 0; i < plan.ops.size() && i < a.res.size() && i < b.res.size(); i++) {
    const OpRes &x = a.res[i], &y = b.res[i];
    const char *on = op_name[plan.ops[i].kind];
    if (plan.ops[i].kind == OP_NEW) continue;  // reproc++ wraps a failed reproc_new in a valid object
    if (x.ran != y.ran) { add("op-diverged", std::string("op=") + on, "an operation ran through one binding only", (int) i); break; }
    if (!x.ran) continue;
    // the C++ API cannot express a NULL handle; those ops are answered by the shim
    if (x.ret != y.ret) { add("result-differs", std::string("op=") + on, "C returned " + std::to_string(x.ret) + ", reproc++ maps to " + std::to_string(y.ret), (int) i); break; }
    if (x.events != y.events) { add("events-differ", std::string("op=") + on, "poll events differ between the bindings", (int) i); break; }
    if (y.raw.ec) {
      if (y.raw.cat != 1 && y.raw.cat != 2) { add("error-category", std::string("op=") + on, "error category differs from the documented mapping", (int) i); break; }
    }
  }
  if (out.empty() && a.log_hash != b.log_hash) add("event-log-differs", "", "the two bindings produced different sequences of system calls for the same plan", -1);
}

CaseResult run_case(const PropCfg &cfg, const Plan &plan, RunResult *rr_out) {
  CaseResult cr;
  RunOpts ro;
  if (cfg.mode == 2) {
    Plan pc = plan, px = plan;
    pc.w.binding = 0; px.w.binding = 1;
    RunResult a = run_plan(pc, ro), b = run_plan(px, ro);
    cr.viols = a.viols;
    for (auto &v : b.viols) cr.viols.push_back(v);
    if (a.fatal.empty() && b.fatal.empty() && !a.capped && !b.capped) diff_viols(plan, a, b, cr.viols);
    cr.log_hash = a.log_hash * 31 + b.log_hash;
    if (rr_out) *rr_out = std::move(a);
    return cr;
  }
  RunResult rr = run_plan(plan, ro);
  cr.viols = rr.viols;
  if (!rr.fatal.empty()) {
    Viol v; v.prop = cfg.id; v.cls = "fatal"; v.sig = std::string(cfg.id) + "/fatal/" + rr.fatal; v.detail = rr.fatal; cr.viols.push_back(v);
  }
  cr.log_hash = rr.log_hash;
  if (rr_out) *rr_out = std::move(rr);
  return cr;
}

// ------------------------------------------------------------------ worker
struct Found { std::string sig, cls, prop, detail; uint64_t seed; std::string plan_json; uint64_t count = 0; };

struct WorkerStats {
  uint64_t cases = 0, scenarios = 0, nontrivial = 0, hung = 0, capped = 0, calls = 0, switches = 0, faults_fired = 0, rechecks = 0, second_level = 0;
  double sim_ns = 0;  // weeks of virtual time per plan in some profiles: an integer sum overflows
  uint64_t probes[P_COUNT] = { 0 };
  uint64_t fired[K_COUNT] = { 0 };
  uint64_t kind_calls[K_COUNT] = { 0 };
  std::unordered_set<uint64_t> hashes, scheds, tuples;
  std::map<std::string, Found> found;       // own property
  std::map<std::string, uint64_t> other;    // other properties' signatures seen (informational)
  std::vector<std::string> samples;
  bool nondet = false;
  std::string nondet_info;
};

static void account(const PropCfg &cfg, WorkerStats &ws, const Plan &plan, const CaseResult &cr, const RunResult &rr, uint64_t seed) {
  ws.cases++;
  ws.calls += rr.calls;
  ws.switches += rr.switches;
  ws.sim_ns += (double) rr.sim_ns;
  if (rr.hung) ws.hung++;
  if (rr.capped) ws.capped++;
  bool fired = false;
  for (int i = 0; i < P_COUNT; i++) ws.probes[i] += rr.probes[i];
  for (int i = 0; i < K_COUNT; i++) { ws.fired[i] += rr.fired[i]; ws.kind_calls[i] += rr.kind_calls[i]; if (rr.fired[i]) fired = true; }
  if (fired) ws.faults_fired++;
  bool nontrivial = rr.probes[P_start_ok] || rr.probes[P_start_failed] || fired;
  if (nontrivial) {
    ws.nontrivial++;
    if (ws.hashes.size() < 3000000) ws.hashes.insert(cr.log_hash);
  }
  if (ws.scheds.size() < 3000000) ws.scheds.insert(rr.sched_hash);
  for (uint64_t t : rr.tuples) if (ws.tuples.size() < 1000000) ws.tuples.insert(t);
  for (auto &v : cr.viols) {
    if (v.prop != cfg.id && !(getenv("SIM_DIAG_ALSO") && v.prop == getenv("SIM_DIAG_ALSO"))) { ws.other[v.sig]++; continue; }  // SIM_DIAG_ALSO: development aid
    auto it = ws.found.find(v.sig);
    if (it == ws.found.end()) {
      if (ws.found.size() >= 3000) continue;
      Found f; f.sig = v.sig; f.cls = v.cls; f.prop = v.prop; f.detail = v.detail; f.seed = seed; f.plan_json = plan.to_json().dump(); f.count = 1;
      ws.found[v.sig] = f;
    } else it->second.count++;
  }
}

static void run_one(const PropCfg &cfg, WorkerStats &ws, const Plan &plan, uint64_t seed, bool recheck) {
  RunResult rr;
  CaseResult cr = run_case(cfg, plan, &rr);
  account(cfg, ws, plan, cr, rr, seed);
  if (recheck) {
    RunResult rr2;
    CaseResult cr2 = run_case(cfg, plan, &rr2);
    ws.rechecks++;
    if (cr2.log_hash != cr.log_hash || cr2.viols.size() != cr.viols.size()) {
      ws.nondet = true;
      ws.nondet_info = "seed " + std::to_string(seed) + ": two executions of the same plan differ";
    }
  }
}

static bool is_restoring_sigmask(const CallSite &s) { return !s.child && s.kind == K_sigmask && s.nth >= 2; }

// fault enumeration over one scenario
static void enumerate_scenario(const PropCfg &cfg, WorkerStats &ws, const Plan &base, uint64_t seed, bool thorough, double deadline_s) {
  ws.scenarios++;
  std::string prop = cfg.id;
  run_one(cfg, ws, base, seed, (seed & 63) == 0);
  std::vector<int> trace_ops;
  if (prop == "C05") trace_ops.push_back(-2);  // every op, one traced run
  else
    for (size_t i = 0; i < base.ops.size(); i++)
      if (base.ops[i].kind == OP_START && base.ops[i].h == 0) { trace_ops.push_back((int) i); break; }  // the scenario's first start only
  Rng pr = Rng::stream(seed, "pairs");
  for (int top : trace_ops) {
    RunOpts ro; ro.trace_op = top;
    RunResult tr = run_plan(base, ro);
    std::vector<CallSite> sites;
    // loops (drain, repeated reads) make the same site thousands of times: keep the first three, the middle and the last occurrence per (op, side, kind)
    std::map<std::tuple<int, bool, int>, int> max_nth;
    for (auto &s : tr.sites) { auto key = std::make_tuple(s.op, s.child, (int) s.kind); if (s.nth > max_nth[key]) max_nth[key] = s.nth; }
    bool seen_dup2 = false;
    int loop_probe_seen = 0;
    int cur_op = -1;
    for (auto &s : tr.sites) {
      if (s.op != cur_op) { cur_op = s.op; seen_dup2 = false; loop_probe_seen = 0; }
      if (s.child && s.kind == K_dup2) seen_dup2 = true;
      if (s.kind == K_free || s.kind == K_clock_gettime || s.kind == K__exit) continue;
      // the child-side close loop probes every descriptor number with F_GETFD: a failing probe means "not open" by contract
      if (s.child && s.kind == K_fcntl_getfd && !seen_dup2) continue;
      // ... and closes the ones that are open: folded into one site (first, middle, last are enough)
      if (s.child && s.kind == K_close && !seen_dup2) { if (++loop_probe_seen > 3) continue; }
      { int mx = max_nth[std::make_tuple(s.op, s.child, (int) s.kind)]; if (s.nth > 3 && s.nth != mx && s.nth != (mx + 1) / 2) continue; }
      if (prop == "C12" && is_restoring_sigmask(s)) continue;
      // the child's error report itself (4 bytes into an empty blocking pipe) has no channel to report its own failure
      if (s.child && s.kind == K_write) continue;
      sites.push_back(s);
    }
    auto with_fault = [&](Plan &p, const CallSite &s, const Outcome &o) {
      Fault f; f.op = s.op; f.kind = s.kind; f.nth = s.nth; f.child = s.child; f.err = o.err; f.variant = o.variant;
      p.faults.push_back(f);
    };
    // Second level: the calls an error path makes do not exist in the fault-free trace.  Each single-fault run is traced as well
    // and the calls it makes after its fault fired become the sites of a second fault (sampled in quick, far deeper in thorough).
    struct Second { CallSite first; Outcome fo; CallSite second; };
    std::vector<Second> seconds;
    uint64_t seconds_seen = 0;
    size_t seconds_cap = thorough ? 2500 : 48;
    for (auto &s : sites) {
      for (auto &o : outcomes_for((Kind) s.kind, s.child)) {
        Plan p = base;
        with_fault(p, s, o);
        run_one(cfg, ws, p, seed, false);
        RunOpts ro2; ro2.trace_op = top;
        RunResult t2 = run_plan(p, ro2);
        bool after = false, dup2_seen = false;
        std::map<std::tuple<int, bool, int>, int> per_kind;
        for (auto &s2 : t2.sites) {
          if (s2.child && s2.kind == K_dup2) dup2_seen = true;
          if (!after) { if (s2.op == s.op && s2.child == s.child && s2.kind == s.kind && s2.nth == s.nth) after = true; continue; }
          if (s2.kind == K_free || s2.kind == K_clock_gettime || s2.kind == K__exit) continue;
          if (s2.child && (s2.kind == K_write || (s2.kind == K_fcntl_getfd && !dup2_seen))) continue;
          if (prop == "C12" && is_restoring_sigmask(s2)) continue;
          if (outcomes_for((Kind) s2.kind, s2.child).empty()) continue;
          if (++per_kind[std::make_tuple(s2.op, s2.child, (int) s2.kind)] > 4) continue;  // loops
          // reservoir sample
          seconds_seen++;
          Second sec{ s, o, s2 };
          if (seconds.size() < seconds_cap) seconds.push_back(sec);
          else { uint64_t r = pr.below(seconds_seen); if (r < seconds_cap) seconds[(size_t) r] = sec; }
        }
      }
      if (now_s() > deadline_s) return;
    }
    for (auto &sec : seconds) {
      auto oj = outcomes_for((Kind) sec.second.kind, sec.second.child);
      Plan p = base;
      with_fault(p, sec.first, sec.fo);
      with_fault(p, sec.second, oj[pr.below(oj.size())]);
      run_one(cfg, ws, p, seed, false);
      ws.second_level++;
      if (now_s() > deadline_s) return;
    }
    if (prop == "C05") continue;
    // pairs
    size_t n = sites.size();
    bool complete = thorough && n <= 70;
    size_t budget = complete ? n * n : (thorough ? 1500 : 24);
    for (size_t q = 0; q < budget; q++) {
      size_t i, j;
      if (complete) { i = q / n; j = q % n; if (j <= i) continue; }
      else { if (n < 2) break; i = pr.below(n); j = pr.below(n); if (i == j) continue; if (i > j) std::swap(i, j); }
      auto oi = outcomes_for((Kind) sites[i].kind, sites[i].child), oj = outcomes_for((Kind) sites[j].kind, sites[j].child);
      if (oi.empty() || oj.empty()) continue;
      Plan p = base;
      with_fault(p, sites[i], oi[pr.below(oi.size())]);
      with_fault(p, sites[j], oj[pr.below(oj.size())]);
      run_one(cfg, ws, p, seed, false);
      if ((q & 63) == 0 && now_s() > deadline_s) return;
    }
  }
}

// seed -> plan, exactly as the workers do it (also used to rebuild the plan a crashed worker was executing)
static Plan make_plan(const PropCfg &cfg, uint64_t seed, bool thorough) {
  GenOpts go;
  go.thorough = thorough;
  go.binding = cfg.mode == 2 ? 0 : (strcmp(cfg.id, "C15") == 0 || strcmp(cfg.id, "C16") == 0 ? -1 : 0);
  Plan plan = gen_plan(cfg.profile, seed, go);
  if (cfg.mode == 2) {
      // restrict to what both bindings express identically at the system-call level
      for (auto &op : plan.ops) if (op.kind == OP_DRAIN || op.kind == OP_RUN) { if (op.a == 1 || op.a == 5 || op.a == 6) op.a = 2; if (op.b == 1 || op.b == 5 || op.b == 6) op.b = 2; if (op.d > 0) op.d = -op.d; op.e = 0; }
      for (auto &s : plan.starts) { s.clone = (seed >> 3) & 1; s.argv_null = s.fork; if (s.fork) s.argv_empty = false; }  // reproc++ cannot express fork with arguments / start without
      for (auto &op : plan.ops) if (op.kind == OP_START) op.a &= ~1ll;  // no destroy in the forked child (C++ heap is not copied by the simulated fork)
      {
        std::vector<Fault> keep;
        for (auto &f : plan.faults) if (f.op >= 0 && (size_t) f.op < plan.ops.size() && plan.ops[(size_t) f.op].kind != OP_NEW) keep.push_back(f);
        plan.faults = keep;
      }
  }
  return plan;
}

static std::string stats_json(const WorkerStats &ws) {
  Json j = Json::obj();
  j.set("cases", (unsigned long long) ws.cases).set("scenarios", (unsigned long long) ws.scenarios).set("nontrivial", (unsigned long long) ws.nontrivial);
  j.set("hung", (unsigned long long) ws.hung).set("capped", (unsigned long long) ws.capped).set("calls", (unsigned long long) ws.calls);
  j.set("switches", (unsigned long long) ws.switches).set("faults_fired", (unsigned long long) ws.faults_fired).set("rechecks", (unsigned long long) ws.rechecks).set("second_level", (unsigned long long) ws.second_level);
  j.set("sim_ns", ws.sim_ns);
  Json pr = Json::arr(); for (int i = 0; i < P_COUNT; i++) pr.push((unsigned long long) ws.probes[i]); j.set("probes", pr);
  Json fi = Json::arr(); for (int i = 0; i < K_COUNT; i++) fi.push((unsigned long long) ws.fired[i]); j.set("fired", fi);
  Json kc = Json::arr(); for (int i = 0; i < K_COUNT; i++) kc.push((unsigned long long) ws.kind_calls[i]); j.set("kind_calls", kc);
  Json fo = Json::arr();
  for (auto &kv : ws.found) {
    const Found &f = kv.second;
    fo.push(Json::obj().set("sig", f.sig).set("cls", f.cls).set("prop", f.prop).set("detail", f.detail).set("seed", (unsigned long long) f.seed)
                .set("plan", f.plan_json).set("count", (unsigned long long) f.count));
  }
  j.set("found", fo);
  Json ot = Json::obj(); for (auto &kv : ws.other) ot.set(kv.first, (unsigned long long) kv.second); j.set("other", ot);
  Json sm = Json::arr(); for (auto &s : ws.samples) sm.push(s); j.set("samples", sm);
  j.set("nondet", ws.nondet).set("nondet_info", ws.nondet_info);
  return j.dump();
}

struct Shared { volatile uint64_t cur_seed[64]; volatile uint64_t done[64]; };

static void write_all(int fd, const std::string &s) {
  size_t off = 0;
  while (off < s.size()) { ssize_t n = write(fd, s.data() + off, s.size() - off); if (n <= 0) break; off += (size_t) n; }
}

static void worker_main(const PropCfg &cfg, int w, int nw, uint64_t base_seed, uint64_t nplans, double secs, bool thorough, Shared *sh, int out_fd,
                        const std::string &hash_file) {
  WorkerStats ws;
  double t_end = now_s() + secs;
  for (uint64_t i = (uint64_t) w; nplans == 0 || i < nplans; i += (uint64_t) nw) {
    uint64_t seed = base_seed * 1000003ull + i;
    sh->cur_seed[w] = seed;
    if (getenv("SIM_PROGRESS")) fprintf(stderr, "w%d i=%llu seed=%llu\n", w, (unsigned long long) i, (unsigned long long) seed);
    Plan plan = make_plan(cfg, seed, thorough);
    if (ws.samples.size() < 2 && w == 0) ws.samples.push_back(plan.to_json().dump());
    if (cfg.mode == 1) enumerate_scenario(cfg, ws, plan, seed, thorough, t_end);
    else run_one(cfg, ws, plan, seed, (i / (uint64_t) nw) % 97 == 0);
    sh->done[w]++;
    if (ws.nondet) break;
    if ((i / (uint64_t) nw) % 32 == 0 && now_s() > t_end) break;
  }
  sh->cur_seed[w] = 0;
  // distinct hashes go to a side file so that the supervisor can count the union exactly
  {
    FILE *f = fopen(hash_file.c_str(), "wb");
    if (f) {
      for (uint64_t h : ws.hashes) fwrite(&h, 8, 1, f);
      uint64_t sep = 0; fwrite(&sep, 8, 1, f); fwrite(&sep, 8, 1, f);
      for (uint64_t h : ws.scheds) fwrite(&h, 8, 1, f);
      fwrite(&sep, 8, 1, f); fwrite(&sep, 8, 1, f);
      for (uint64_t h : ws.tuples) fwrite(&h, 8, 1, f);
      fclose(f);
    }
  }
  write_all(out_fd, stats_json(ws));
  close(out_fd);
  fflush(nullptr);
#if defined(SIM_COV)
  __gcov_dump();
#endif
  _exit(0);
}

// ------------------------------------------------------------------ supervisor
static std::string read_file(const std::string &p) { std::ifstream f(p); std::stringstream ss; ss << f.rdbuf(); return ss.str(); }

static int replay_file(const std::string &path) {
  Json j;
  if (!Json::parse(read_file(path), j)) { fprintf(stderr, "cannot parse %s\n", path.c_str()); return 2; }
  Plan plan;
  if (!Plan::from_json(j.at("plan"), &plan)) { fprintf(stderr, "bad plan in %s\n", path.c_str()); return 2; }
  const Json &ex = j.at("expect");
  const PropCfg *cfg = prop_cfg(ex.str("property"));
  if (!cfg) return 2;
  RunOpts ro; ro.keep_log = true;
  Plan p1 = plan;
  if (cfg->mode == 2) p1.w.binding = 0;
  RunResult rr = run_plan(p1, ro);
  printf("%s", rr.log_text.c_str());
  CaseResult cr = run_case_forked(*cfg, plan);
  for (size_t i = 0; i < rr.res.size(); i++)
    if (rr.res[i].ran) printf("op %zu %-9s h=%d -> %lld  (%.3f..%.3f ms, %u calls%s)\n", i, op_name[plan.ops[i].kind], plan.ops[i].h, rr.res[i].ret,
                              (double) rr.res[i].t0_ns / 1e6, (double) rr.res[i].t1_ns / 1e6, rr.res[i].calls, rr.res[i].parked ? ", parked" : "");
  for (auto &v : cr.viols) printf("violation %s: %s (op %d)\n", v.sig.c_str(), v.detail.c_str(), v.op);
  printf("log_hash=%llx expected=%llx hung=%d\n", (unsigned long long) cr.log_hash, (unsigned long long) ex.num("log_hash"), rr.hung);
  std::string sig;
  bool rep = has_viol(cr, ex.str("property"), ex.str("class"), &sig);
  if (rep && cr.log_hash == (uint64_t) ex.num("log_hash")) { printf("VIOLATION property=%s replay=%s\n", ex.str("property").c_str(), path.c_str()); return 1; }
  if (rep) { printf("violation reproduces but the event log differs (code under test changed?)\n"); return 1; }
  printf("the recorded violation does not reproduce on this tree\n");
  return 0;
}

int main(int argc, char **argv) {
  std::string prop, tier = "quick", replay, evidence_dir = "evidence", known_path = "known_findings.jsonl", lane = "asan";
  uint64_t seed = 20261003, nplans = 0;
  double secs = 0;
  int nw = (int) sysconf(_SC_NPROCESSORS_ONLN);
  if (getenv("VERIF_SEED")) seed = strtoull(getenv("VERIF_SEED"), nullptr, 10);
  if (getenv("VERIF_TIER")) tier = getenv("VERIF_TIER");
  for (int i = 1; i < argc; i++) {
    std::string a = argv[i];
    auto next = [&]() { return i + 1 < argc ? std::string(argv[++i]) : std::string(); };
    if (a == "--property") prop = next();
    else if (a == "--tier") tier = next();
    else if (a == "--seed") seed = strtoull(next().c_str(), nullptr, 10);
    else if (a == "--plans") nplans = strtoull(next().c_str(), nullptr, 10);
    else if (a == "--secs") secs = atof(next().c_str());
    else if (a == "--workers") nw = atoi(next().c_str());
    else if (a == "--replay") replay = next();
    else if (a == "--evidence-dir") evidence_dir = next();
    else if (a == "--known") known_path = next();
    else if (a == "--lane") lane = next();
    else if (a == "--dump-state") return conform_dump_state();
    else if (a == "--conformance") { int bad = conform_run(true); printf("conformance: %d mismatching program(s)\n", bad); return bad ? 2 : 0; }
    else if (a == "--twice") {
      Json j; Plan plan;
      if (!Json::parse(read_file(next()), j) || !Plan::from_json(j.at("plan"), &plan)) return 2;
      RunOpts ro; ro.keep_log = true;
      RunResult a1 = run_plan(plan, ro), a2 = run_plan(plan, ro);
      printf("hash %llx %llx\n", (unsigned long long) a1.log_hash, (unsigned long long) a2.log_hash);
      for (auto &v : a1.viols) printf("run1 %s: %s\n", v.sig.c_str(), v.detail.c_str());
      for (auto &v : a2.viols) printf("run2 %s: %s\n", v.sig.c_str(), v.detail.c_str());
      size_t i = 0;
      while (i < a1.log_text.size() && i < a2.log_text.size() && a1.log_text[i] == a2.log_text[i]) i++;
      size_t ls = a1.log_text.rfind('\n', i);
      if (ls == std::string::npos) ls = 0;
      size_t from = ls > 600 ? ls - 600 : 0;
      printf("--- first run around divergence\n%s\n--- second run\n%s\n", a1.log_text.substr(from, 1200).c_str(), a2.log_text.substr(from, 1200).c_str());
      return 0;
    }
    else if (a == "--gen") { GenOpts go; Plan p = gen_plan(next(), seed, go); printf("%s\n", p.to_json().dump(1).c_str()); return 0; }
  }
  if (!coro_selftest()) { fprintf(stderr, "MACHINERY: sanitizer shadow mapping self-test failed\n"); return 2; }
  if (!replay.empty()) return replay_file(replay);
  const PropCfg *cfg = prop_cfg(prop);
  if (!cfg) { fprintf(stderr, "unknown property '%s'\n", prop.c_str()); return 2; }
  bool thorough = tier == "thorough";
  if (nw < 1) nw = 1;
  if (nw > 64) nw = 64;
  if (nplans == 0 && secs == 0) { if (thorough) secs = cfg->thorough_secs; else nplans = cfg->quick_plans; }
  if (secs == 0) secs = thorough ? cfg->thorough_secs : 600;
  if (thorough && getenv("VERIF_THOROUGH_SECS")) secs = atof(getenv("VERIF_THOROUGH_SECS"));
  double t0 = now_s();

  std::string extra_evidence;
  for (int i = 1; i + 1 < argc; i++) if (std::string(argv[i]) == "--extra-evidence") extra_evidence = argv[i + 1];
  uint64_t tls_runs = 0;
  std::string tls_bad;
  if (prop == "C20" && lane != "tsan") {
    for (uint64_t i = 0; i < (thorough ? 5000u : 400u) && tls_bad.empty(); i++) { tls_bad = tls_check(seed * 7919 + i); tls_runs++; }
  }
  // (both lanes: under TSan this is where storage shared between two concurrent calls is reported as a race)
  if (prop == "C20") for (uint64_t i = 0; i < (thorough ? 200u : 20u) && tls_bad.empty(); i++) { tls_bad = tls_free_running(seed * 104729 + i); tls_runs++; }
  Shared *sh = (Shared *) mmap(nullptr, sizeof(Shared), PROT_READ | PROT_WRITE, MAP_SHARED | MAP_ANONYMOUS, -1, 0);
  memset((void *) sh, 0, sizeof *sh);
  std::string tmpdir = std::string("build/tmp.") + std::to_string(getpid());
  mkdir("build", 0755);
  mkdir(tmpdir.c_str(), 0755);
  mkdir("replays", 0755);
  mkdir(evidence_dir.c_str(), 0755);
  struct W { pid_t pid; int fd; std::string out; bool dead = false; bool stuck = false; int status = 0; };
  std::vector<W> ws((size_t) nw);
  fflush(nullptr);
  for (int w = 0; w < nw; w++) {
    int fds[2];
    if (pipe(fds) < 0) return 2;
    pid_t pid = fork();
    if (pid == 0) {
      close(fds[0]);
      for (int k = 0; k < w; k++) close(ws[(size_t) k].fd);
      worker_main(*cfg, w, nw, seed, nplans, secs, thorough, sh, fds[1], tmpdir + "/h" + std::to_string(w));
    }
    close(fds[1]);
    ws[(size_t) w].pid = pid;
    ws[(size_t) w].fd = fds[0];
  }
  // collect (with a watchdog: a worker that finishes no plan for 3 minutes is stuck inside one)
  {
    std::vector<uint64_t> last_done((size_t) nw, 0);
    std::vector<double> last_change((size_t) nw, now_s());
    std::vector<bool> open_((size_t) nw, true);
    int remaining = nw;
    const double stuck_s = getenv("SIM_STUCK_SECS") ? atof(getenv("SIM_STUCK_SECS")) : 180.0;
    while (remaining > 0) {
      std::vector<struct pollfd> pf;
      std::vector<int> idx;
      for (int w = 0; w < nw; w++) if (open_[(size_t) w]) { struct pollfd p; p.fd = ws[(size_t) w].fd; p.events = POLLIN; p.revents = 0; pf.push_back(p); idx.push_back(w); }
      poll(pf.data(), pf.size(), 1000);
      for (size_t k = 0; k < pf.size(); k++) {
        int w = idx[k];
        W &x = ws[(size_t) w];
        if (pf[k].revents & (POLLIN | POLLHUP | POLLERR)) {
          char buf[65536];
          ssize_t n = read(x.fd, buf, sizeof buf);
          if (n > 0) { x.out.append(buf, (size_t) n); continue; }
          close(x.fd);
          open_[(size_t) w] = false;
          remaining--;
          waitpid(x.pid, &x.status, 0);
          x.dead = !WIFEXITED(x.status) || WEXITSTATUS(x.status) != 0;
          continue;
        }
        uint64_t d = sh->done[w];
        if (d != last_done[(size_t) w]) { last_done[(size_t) w] = d; last_change[(size_t) w] = now_s(); }
        else if (now_s() - last_change[(size_t) w] > stuck_s) {
          kill(x.pid, SIGKILL);
          x.stuck = true;
          last_change[(size_t) w] = now_s();
        }
      }
    }
  }
  // merge
  WorkerStats tot;
  std::map<std::string, Found> found;
  bool machinery = false;
  std::string machinery_info;
  for (int w = 0; w < nw; w++) {
    W &x = ws[(size_t) w];
    if (x.dead) {
      // the plan the worker was executing crashed it: sanitizer report, abort, fatal signal
      uint64_t cs = sh->cur_seed[w];
      Found f;
      bool san = WIFEXITED(x.status) && (WEXITSTATUS(x.status) == 77 || WEXITSTATUS(x.status) == 66);
      f.prop = cfg->id; f.cls = "crash";
      f.sig = std::string(cfg->id) + "/crash/" + (x.stuck ? "stuck" : san ? "sanitizer" : WIFSIGNALED(x.status) ? "signal-" + std::to_string(WTERMSIG(x.status)) : "exit");
      f.detail = x.stuck ? "a worker made no progress for minutes while executing this plan (endless loop)" : "a worker died while executing this plan (sanitizer report, abort or fatal signal)";
      f.seed = cs;
      f.plan_json = make_plan(*cfg, cs, thorough).to_json().dump();
      f.count = 1;
      if (cfg->mode == 1) { machinery = machinery || false; }
      found[f.sig] = f;
      continue;
    }
    Json j;
    if (!Json::parse(x.out, j)) { machinery = true; machinery_info = "worker output unreadable"; continue; }
    tot.cases += (uint64_t) j.num("cases"); tot.scenarios += (uint64_t) j.num("scenarios"); tot.nontrivial += (uint64_t) j.num("nontrivial");
    tot.hung += (uint64_t) j.num("hung"); tot.capped += (uint64_t) j.num("capped"); tot.calls += (uint64_t) j.num("calls");
    tot.switches += (uint64_t) j.num("switches"); tot.faults_fired += (uint64_t) j.num("faults_fired"); tot.rechecks += (uint64_t) j.num("rechecks"); tot.second_level += (uint64_t) j.num("second_level");
    tot.sim_ns += j.num("sim_ns");
    for (int i = 0; i < P_COUNT && (size_t) i < j.at("probes").size(); i++) tot.probes[i] += (uint64_t) j.at("probes")[(size_t) i].as_int();
    for (int i = 0; i < K_COUNT && (size_t) i < j.at("fired").size(); i++) tot.fired[i] += (uint64_t) j.at("fired")[(size_t) i].as_int();
    for (int i = 0; i < K_COUNT && (size_t) i < j.at("kind_calls").size(); i++) tot.kind_calls[i] += (uint64_t) j.at("kind_calls")[(size_t) i].as_int();
    const Json &fo = j.at("found");
    for (size_t i = 0; i < fo.size(); i++) {
      Found f; f.sig = fo[i].str("sig"); f.cls = fo[i].str("cls"); f.prop = fo[i].str("prop"); f.detail = fo[i].str("detail");
      f.seed = (uint64_t) fo[i].num("seed"); f.plan_json = fo[i].str("plan"); f.count = (uint64_t) fo[i].num("count");
      auto it = found.find(f.sig);
      if (it == found.end()) found[f.sig] = f;
      else { it->second.count += f.count; if (f.plan_json.size() < it->second.plan_json.size()) { uint64_t c = it->second.count; it->second = f; it->second.count = c; } }
    }
    for (auto &kv : j.at("other").o) tot.other[kv.first] += (uint64_t) kv.second.as_int();
    for (size_t i = 0; i < j.at("samples").size(); i++) if (tot.samples.size() < 2) tot.samples.push_back(j.at("samples")[i].s);
    if (j.num("nondet")) { machinery = true; machinery_info = j.str("nondet_info"); }
    // union of distinct hashes
    FILE *f = fopen((tmpdir + "/h" + std::to_string(w)).c_str(), "rb");
    if (f) {
      uint64_t h, prev = 1; int section = 0;
      while (fread(&h, 8, 1, f) == 1) {
        if (h == 0 && prev == 0) { section++; prev = 1; continue; }
        if (h == 0) { prev = 0; continue; }
        prev = h;
        if (section == 0) tot.hashes.insert(h); else if (section == 1) tot.scheds.insert(h); else tot.tuples.insert(h);
      }
      fclose(f);
    }
  }
  for (int w = 0; w < nw; w++) unlink((tmpdir + "/h" + std::to_string(w)).c_str());
  rmdir(tmpdir.c_str());
  if (machinery) { fprintf(stderr, "MACHINERY: %s\n", machinery_info.c_str()); return 2; }

  // ---- violations: minimise, gate, report
  if (getenv("SIM_LIST_SIGS")) for (auto &kv : found) printf("SIG %s x%llu :: %s\n", kv.first.c_str(), (unsigned long long) kv.second.count, kv.second.detail.c_str());
  std::vector<KnownFinding> known = load_known(known_path);
  int new_violations = 0, known_hits = 0;
  Json vio = Json::arr();
  int handled = 0;
  std::set<std::string> printed_known;
  for (auto &kv : found) {
    Found &f = kv.second;
    const KnownFinding *kf = match_known(known, f.prop, f.sig);
    if (kf) {
      known_hits++;
      if (!printed_known.count(kf->signature)) {
        printf("KNOWN-FINDING: property=%s %s [%s]\n", f.prop.c_str(), kf->what.c_str(), kf->signature.c_str());
        printed_known.insert(kf->signature);
      }
      vio.push(Json::obj().set("signature", f.sig).set("known", true).set("count", (unsigned long long) f.count));
      continue;
    }
    if (handled++ >= 6) { new_violations++; continue; }
    Json pj;
    Plan plan;
    if (!Json::parse(f.plan_json, pj) || !Plan::from_json(pj, &plan)) { fprintf(stderr, "MACHINERY: cannot re-read plan\n"); return 2; }
    // gate 1: the violation must reproduce in a fresh process
    CaseResult c1 = run_case_forked(*cfg, plan);
    if (!has_viol(c1, f.prop, f.cls)) { fprintf(stderr, "MACHINERY: violation %s (seed %llu) does not reproduce in a fresh process\n", f.sig.c_str(), (unsigned long long) f.seed); return 2; }
    int used = 0;
    Plan small = f.cls == "crash" && !c1.ok ? shrink_plan(*cfg, plan, f.prop, f.cls, 120, &used) : shrink_plan(*cfg, plan, f.prop, f.cls, 250, &used);
    // gate 2: same minimised plan, two fresh processes, identical class and identical event-log hash
    CaseResult a = run_case_forked(*cfg, small), b = run_case_forked(*cfg, small);
    std::string sig, detail;
    if (!has_viol(a, f.prop, f.cls, &sig, &detail) || !has_viol(b, f.prop, f.cls) || a.log_hash != b.log_hash) {
      fprintf(stderr, "MACHINERY: minimised plan for %s is not reproducible (hash %llx vs %llx)\n", f.sig.c_str(), (unsigned long long) a.log_hash, (unsigned long long) b.log_hash);
      return 2;
    }
    // the minimised plan may carry a more specific signature that is a known finding
    const KnownFinding *kf2 = match_known(known, f.prop, sig);
    if (kf2) {
      known_hits++;
      if (!printed_known.count(kf2->signature)) { printf("KNOWN-FINDING: property=%s %s [%s]\n", f.prop.c_str(), kf2->what.c_str(), kf2->signature.c_str()); printed_known.insert(kf2->signature); }
      continue;
    }
    std::string safe = f.cls;
    for (auto &ch : safe) if (!isalnum((unsigned char) ch) && ch != '-') ch = '_';
    std::string path = "replays/" + f.prop + "-" + safe + "-" + std::to_string(f.seed) + ".json";
    Json rj = Json::obj();
    rj.set("expect", Json::obj().set("property", f.prop).set("class", f.cls).set("signature", sig).set("log_hash", (unsigned long long) a.log_hash));
    rj.set("detail", detail);
    rj.set("found_with_seed", (unsigned long long) f.seed);
    rj.set("occurrences_in_this_run", (unsigned long long) f.count);
    rj.set("shrink_runs", used);
    rj.set("replay_cmd", "bin/simcheck --replay " + path);
    rj.set("plan", small.to_json());
    std::ofstream(path) << rj.dump(1) << "\n";
    char cwd[4096];
    std::string abs = std::string(getcwd(cwd, sizeof cwd) ? cwd : ".") + "/" + path;
    printf("VIOLATION property=%s replay=%s\n", f.prop.c_str(), abs.c_str());
    printf("  signature: %s\n  detail: %s\n  ops after minimisation: %zu (from %zu), faults: %zu, seed %llu, seen %llu times\n", sig.c_str(), detail.c_str(), small.ops.size(),
           plan.ops.size(), small.faults.size(), (unsigned long long) f.seed, (unsigned long long) f.count);
    vio.push(Json::obj().set("signature", sig).set("known", false).set("replay", abs).set("count", (unsigned long long) f.count));
    new_violations++;
  }

  if (!tls_bad.empty()) {
    printf("VIOLATION property=C20 replay=%s\n  signature: C20/error-string-shared\n  detail: %s\n", "(none: two real threads released by a seeded baton; re-run the check)", tls_bad.c_str());
    new_violations++;
  }
  // ---- evidence
  double wall = now_s() - t0;
  Json ev = Json::obj();
  ev.set("property_id", cfg->id).set("tier", thorough ? "thorough" : "quick").set("seed", (unsigned long long) seed).set("level", cfg->level);
  Json cov = Json::obj();
  cov.set("evaluations", (unsigned long long) tot.cases);
  cov.set("distinct_nontrivial", (unsigned long long) tot.hashes.size());
  cov.set("rule", cfg->rule);
  Json samples = Json::arr();
  for (auto &s : tot.samples) { Json pj; if (Json::parse(s, pj)) samples.push(pj); }
  cov.set("samples", samples);
  cov.set("exhaustive", strcmp(cfg->id, "C10") == 0 && tot.cases >= 31360);
  cov.set("scenarios", (unsigned long long) tot.scenarios);
  cov.set("nontrivial_cases", (unsigned long long) tot.nontrivial);
  cov.set("distinct_interleavings", (unsigned long long) tot.scheds.size());
  cov.set("distinct_op_state_outcome_tuples", (unsigned long long) tot.tuples.size());
  cov.set("cases_with_fired_fault", (unsigned long long) tot.faults_fired);
  cov.set("simulated_calls", (unsigned long long) tot.calls);
  cov.set("context_switches", (unsigned long long) tot.switches);
  cov.set("simulated_seconds", (double) tot.sim_ns / 1e9);
  cov.set("runs_per_hour", wall > 0 ? (double) tot.cases / wall * 3600.0 : 0.0);
  cov.set("hung_runs_classified", (unsigned long long) tot.hung);
  cov.set("runs_cut_by_call_cap", (unsigned long long) tot.capped);
  cov.set("determinism_rechecks", (unsigned long long) tot.rechecks);
  if (cfg->mode == 1) cov.set("error_path_second_faults", (unsigned long long) tot.second_level);
  Json fired = Json::obj();
  for (int i = 0; i < K_COUNT; i++) if (tot.fired[i]) fired.set(kind_name[i], (unsigned long long) tot.fired[i]);
  cov.set("faults_fired_by_call", fired);
  Json kc = Json::obj();
  for (int i = 0; i < K_COUNT; i++) if (tot.kind_calls[i]) kc.set(kind_name[i], (unsigned long long) tot.kind_calls[i]);
  cov.set("simulated_calls_by_kind", kc);
  Json pr = Json::obj();
  for (int i = 0; i < P_COUNT; i++) pr.set(probe_name[i], (unsigned long long) tot.probes[i]);
  cov.set("probes", pr);
  Json oth = Json::obj();
  for (auto &kv : tot.other) oth.set(kv.first, (unsigned long long) kv.second);
  // Every oracle runs in every profile, but each is calibrated (fault mix, child behaviour, allowed failures) for the profile of
  // its own property only: what other properties' oracles said about this profile's plans is diagnostic, not a claim.
  cov.set("foreign_oracle_hits_not_claims", oth);
  cov.set("components", Json::obj()
                            .set("real", "reproc/src/*.c (POSIX) and reproc++/src/reproc.cpp + headers, compiled from /repo's working tree by this check")
                            .set("stub", "libc system-call layer (simk), child programs (scripts), clock, scheduler; allocator = real malloc behind a ledger shim")
                            .set("lane", lane));
  cov.set("violations_detail", vio);
  if (tls_runs) cov.set("error_string_tls_scenarios", (unsigned long long) tls_runs);
  if (!extra_evidence.empty()) { Json xj; if (Json::parse(read_file(extra_evidence), xj)) cov.set("tsan_lane", xj.at("coverage")); }
  ev.set("coverage", cov);
  ev.set("assumptions", Json::arr()
                            .push("simk's model of Linux pipe/poll/fork/exec/wait/signal semantics (calibrated by the conformance self-test)")
                            .push("pre-emption at simulated-call granularity; the child phase between fork and exec is atomic w.r.t. sibling threads")
                            .push("sampling: a clean batch is evidence over the explored plans, not a proof"));
  ev.set("wall_s", wall);
  ev.set("violations", new_violations);
  ev.set("known_findings_hit", known_hits);
  ev.set("workers", nw);
  std::ofstream(evidence_dir + "/" + cfg->id + ".json") << ev.dump(1) << "\n";
  printf("%s %s: %llu cases (%llu distinct non-trivial), %llu scenarios, %.1f s, %.0f cases/s, %llu new violation signature(s), %d known\n", cfg->id, tier.c_str(),
         (unsigned long long) tot.cases, (unsigned long long) tot.hashes.size(), (unsigned long long) tot.scenarios, wall, wall > 0 ? (double) tot.cases / wall : 0.0,
         (unsigned long long) new_violations, known_hits);
  for (auto &kv : tot.other) if (getenv("SIM_VERBOSE")) printf("  (other property) %s x%llu\n", kv.first.c_str(), (unsigned long long) kv.second);
  return new_violations ? 1 : 0;
}
