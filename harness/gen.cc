// seed -> plan.  One generator per profile; all share the same building blocks.
#include "gen.hpp"

#include <cerrno>
#include <climits>
#include <csignal>

using namespace simk;

namespace {

struct G {
  Rng r;
  Plan p;
  ShimConsts C;
  GenOpts o;
  explicit G(uint64_t seed, const char *profile, const GenOpts &go) : r(Rng::stream(seed, profile)), C(shim_c.consts()), o(go) {
    p.seed = seed;
    p.profile = profile;
    p.w.binding = go.binding < 0 ? (int) r.below(2) : go.binding;
  }
  int64_t pick(std::initializer_list<int64_t> l) { return *(l.begin() + r.below(l.size())); }
  bool chance(unsigned pct) { return r.below(100) < pct; }

  Op &op(int kind, int h = -1, int thread = 0) {
    Op o2; o2.kind = kind; o2.h = h; o2.thread = thread;
    p.ops.push_back(o2);
    return p.ops.back();
  }
  unsigned desc_pct = 0;  // share of children that leave a descendant behind holding some of their standard descriptors
  int add_child(const ChildSpec &c0) {
    ChildSpec c = c0;
    if (desc_pct && r.below(100) < desc_pct) {
      Step sp{ Step::SPAWN, (int) r.range(1, 7), pick({ 5, 50, 300, 100000 }), 0 };
      if (!c.script.empty() && (c.script.back().k == Step::EXIT || c.script.back().k == Step::RAISE)) c.script.insert(c.script.end() - 1, sp);
      else c.script.push_back(sp);
    }
    p.children.push_back(c);
    return (int) p.children.size() - 1;
  }
  int add_start(const StartSpec &s) { p.starts.push_back(s); return (int) p.starts.size() - 1; }
  void fault(int opi, Kind k, int nth, bool child, int err, int variant = 0) {
    Fault f; f.op = opi; f.kind = k; f.nth = nth; f.child = child; f.err = err; f.variant = variant;
    p.faults.push_back(f);
  }
};

void world_swarm(G &g, bool allow_preempt = true) {
  World &w = g.p.w.k;
  w.pipe_cap = (size_t) g.pick({ 8, 16, 64, 4096, 4096, 65536, 65536 });
  w.rlim_cur = (uint64_t) g.pick({ 32, 64, 64, 128, 256 });
  w.rlim_max = 4096;
  w.preempt_num = allow_preempt ? (unsigned) g.pick({ 0, 0, 5, 30 }) : 0;
  w.preempt_den = 100;
  w.jitter_mode = (unsigned) g.pick({ 0, 0, 1, 2 });
  w.pid_reuse = (unsigned) g.pick({ 0, 1, 1, 2 });
  w.reoccupy_num = (unsigned) g.pick({ 0, 0, 0, 30 });
  w.zombie_gap = (unsigned) g.pick({ 0, 1, 1 });
  w.stick_pct = (unsigned) g.pick({ 30, 50, 80 });
  w.core_dumps = g.chance(40) ? 1 : 0;
  g.p.w.low_fds = 7;
  g.p.w.cwd_depth = (int) g.r.range(1, 3);
  g.p.w.cwd_comp = (int) g.r.range(1, 12);
  g.p.w.parent_env = { "PATH=/bin:/usr/bin", "HOME=/home/u" };
  if (g.chance(30)) g.p.w.parent_env.push_back("LANG=C");
}

// the wall clock is stepped (operator, NTP, VM resume) while the plan runs; elapsed time and every timeout are unaffected
void maybe_clock_step(G &g, unsigned pct) {
  if (!g.chance(pct)) return;
  g.p.w.k.clock_step_at_ms = g.pick({ 0, 1, 5, 20, 50, 100 });
  g.p.w.k.clock_step_ms = g.pick({ -86400000, -3600000, -60000, -500, -30, 30, 500, 60000, 3600000, 86400000 });
}

ChildSpec::Term rand_term(G &g, ChildSpec &c) {
  c.term = (ChildSpec::Term) g.r.below(4);
  c.term_delay_ms = g.pick({ 0, 1, 5, 30, 100 });
  c.term_code = (int) g.r.below(256);
  return c.term;
}

// a child that ends by itself after `delay` ms with the given ending (code or signal)
ChildSpec child_quiet(int64_t delay, bool by_sig, int v) {
  ChildSpec c;
  if (delay > 0) c.script.push_back(Step{ Step::SLEEP, 0, delay, 0 });
  c.script.push_back(Step{ by_sig ? Step::RAISE : Step::EXIT, 0, v, 0 });
  return c;
}

ChildSpec rand_child(G &g, bool may_read = true) {
  ChildSpec c;
  int n = (int) g.r.range(0, 6);
  for (int i = 0; i < n; i++) {
    switch (g.r.below(may_read ? 7 : 5)) {
      case 0: c.script.push_back(Step{ Step::SLEEP, 0, g.pick({ 0, 1, 3, 10, 50, 200 }), 0 }); break;
      case 1: case 2: { int64_t n = g.pick({ 0, 1, 7, 100, 5000, 70000 }); int64_t ch = g.pick({ 0, 1, 16, 4096 }); while (ch > 0 && n / ch > 1500) ch *= 8; c.script.push_back(Step{ Step::WRITE, 1, n, ch }); break; }
      case 3: { int64_t n = g.pick({ 0, 1, 7, 100, 5000 }); int64_t ch = g.pick({ 0, 3, 4096 }); while (ch > 0 && n / ch > 1500) ch *= 8; c.script.push_back(Step{ Step::WRITE, 2, n, ch }); break; }
      case 4: c.script.push_back(Step{ Step::CLOSE, (int) g.pick({ 0, 1, 2 }), 0, 0 }); break;
      case 5: c.script.push_back(Step{ Step::READ, 0, g.pick({ 1, 10, 1000 }), 0 }); break;
      case 6: c.script.push_back(Step{ g.chance(50) ? Step::READ_EOF : Step::ECHO, 0, 0, g.pick({ 0, 5, 4096 }) }); break;
    }
  }
  if (g.chance(70)) c.script.push_back(Step{ g.chance(85) ? Step::EXIT : Step::RAISE, 0, g.chance(85) ? (int64_t) g.r.below(256) : g.pick({ 1, 2, 6, 9, 11, 13, 15 }), 0 });
  rand_term(g, c);
  c.ignore_sigpipe = g.chance(30);
  return c;
}

StartSpec simple_start(G &g, int child) {
  StartSpec s;
  s.child = child;
  s.prog = 0;
  return s;
}

void rand_stop(G &g, int stop[6], bool allow_bad = false, bool allow_inf = true) {
  for (int i = 0; i < 3; i++) {
    int a = (int) g.r.below(allow_bad ? 5 : 4);
    stop[2 * i] = a == 4 ? (int) g.pick({ -1, 4, 77 }) : a;
    int64_t to = g.pick({ 0, 0, 1, 5, 20, 100, (int64_t) g.C.DEADLINE_, (int64_t) (allow_inf ? g.C.INFINITE_ : 50) });
    stop[2 * i + 1] = (int) to;
  }
}

// a valid redirect assignment with random variety
void rand_redirects(G &g, StartSpec &s) {
  const ShimConsts &C = g.C;
  switch (g.r.below(10)) {
    case 0: s.parent = true; break;
    case 1: s.discard = true; break;
    case 2: s.file = 1; break;
    case 3: s.path = (int) g.pick({ 1, 4, 5 }); break;
    default: break;
  }
  bool sh_outerr = s.file || s.path;
  auto one = [&](RedirSpec &rs, int stream) {
    if (stream > 0 && sh_outerr) return;
    switch (g.r.below(10)) {
      case 0: rs.type = C.R_PIPE; break;
      case 1: rs.type = C.R_PARENT; break;
      case 2: rs.type = C.R_DISCARD; break;
      case 3: rs.type = g.chance(50) ? C.R_HANDLE : C.R_DEFAULT; rs.handle = (int) g.pick({ 1, 2, 3, 3, 4, 5 }); break;
      case 4: rs.type = g.chance(50) ? C.R_FILE : C.R_DEFAULT; rs.file = stream == 0 ? (int) g.pick({ 1, 1, 5 }) : (int) g.pick({ 1, 1, 3, 4 }); break;
      case 5: rs.type = g.chance(50) ? C.R_PATH : C.R_DEFAULT; rs.path = (int) g.pick({ 1, 4, 5 }); break;
      case 6: if (stream == 2) rs.type = C.R_STDOUT; break;
      default: break;
    }
  };
  one(s.in, 0); one(s.out, 1); one(s.err, 2);
}

void make_invalid(G &g, StartSpec &s) {
  const ShimConsts &C = g.C;
  switch (g.r.below(10)) {
    case 9: s.argv_empty = true; break;  // an array with nothing in it, in fork mode or not
    case 0: s.in.type = C.R_HANDLE; s.in.handle = 0; break;
    case 1: s.out.type = C.R_FILE; s.out.file = 0; break;
    case 2: s.err.type = C.R_PATH; s.err.path = 0; break;
    case 3: s.out.type = C.R_PIPE; s.out.path = 1; break;
    case 4: s.parent = true; s.discard = true; s.in = RedirSpec(); break;
    case 5: s.file = 1; s.path = 1; s.out = RedirSpec(); s.err = RedirSpec(); break;
    case 6: s.input_size = 3; s.in.type = C.R_DISCARD; s.in.handle = s.in.file = s.in.path = 0; break;
    case 7: s.input_bad = true; break;
    case 8: if (s.fork) s.argv_null = false; else s.argv_null = true; break;
  }
}

void add_random_fault(G &g, int opi, int opkind) {
  struct FK { Kind k; int err; };
  static const FK common[] = { { K_poll, EINTR }, { K_read, EINTR }, { K_write, EINTR }, { K_waitpid, EINTR }, { K_calloc, F_NULL },
                               { K_malloc, F_NULL }, { K_kill, EPERM }, { K_kill, ESRCH }, { K_close, EINTR }, { K_close, EIO },
                               { K_realloc, F_NULL }, { K_poll, ENOMEM } };
  static const FK start[] = { { K_pipe, EMFILE }, { K_fork, EAGAIN }, { K_fork, ENOMEM }, { K_calloc, F_NULL }, { K_malloc, F_NULL }, { K_strdup, F_NULL },
                              { K_open, EMFILE }, { K_execvp, ENOENT }, { K_execvp, EACCES }, { K_chdir, EACCES }, { K_dup2, EINTR }, { K_read, EINTR },
                              { K_fcntl_setfd, EINVAL }, { K_fcntl_setfl, EINVAL }, { K_getrlimit, EPERM }, { K_sigmask, EINVAL }, { K_close, EIO },
                              { K_waitpid, EINTR }, { K_write, EINTR } };
  if (opkind == OP_START || opkind == OP_RUN) {
    const FK &f = start[g.r.below(sizeof start / sizeof start[0])];
    bool child = f.k == K_execvp || f.k == K_chdir || f.k == K_dup2 || f.k == K_getrlimit || (f.k == K_fcntl_setfd && g.chance(50)) || (f.k == K_sigmask && g.chance(50));
    g.fault(opi, f.k, (int) g.r.range(1, f.k == K_pipe || f.k == K_malloc || f.k == K_close ? 4 : 2), child, f.err);
  } else {
    const FK &f = common[g.r.below(sizeof common / sizeof common[0])];
    g.fault(opi, f.k, (int) g.r.range(1, 2), false, f.err, f.k == K_poll && g.chance(50) ? (int) g.pick({ 1, 5 }) : 0);
  }
}

void destroy_all(G &g, int nh, bool quick_kill = false) {
  for (int h = 0; h < nh; h++) g.op(OP_DESTROY, h);
  (void) quick_kill;
}

std::string rand_bytes(G &g, size_t maxlen);

// ------------------------------------------------------------------ C14: arbitrary call sequences
Plan gen_c14(uint64_t seed, const GenOpts &o, const char *name = "C14") {
  G g(seed, name, o);
  world_swarm(g);
  int nh = (int) g.r.range(1, 3);
  g.desc_pct = 5;
  int nch = (int) g.r.range(1, 3);
  for (int i = 0; i < nch; i++) g.add_child(rand_child(g));
  int nops = (int) g.r.range(6, g.o.thorough ? 60 : 32);
  bool faults = g.chance(25);
  for (int i = 0; i < nops; i++) {
    int h = g.chance(4) ? -1 : (int) g.r.below((uint64_t) nh);
    int k = (int) g.r.below(100);
    if (k < 12) g.op(OP_NEW, h < 0 ? 0 : h);
    else if (k < 27) {
      StartSpec s = simple_start(g, (int) g.r.below((uint64_t) nch));
      if (g.chance(50)) rand_redirects(g, s);
      if (g.chance(15)) { s.fork = true; s.argv_null = true; }
      if (g.chance(12)) make_invalid(g, s);
      if (g.chance(10)) s.prog = (int) g.pick({ 4, 5, 6, 7 });
      if (g.chance(10)) s.wd = (int) g.pick({ 1, 2, 3, 4, 5 });
      if (g.chance(20)) s.deadline = (int) g.pick({ 1, 10, 100, 1000 });
      if (g.chance(20) && s.in.type == 0 && !s.in.handle && !s.in.file && !s.in.path && !s.parent && !s.discard) s.input_size = g.pick({ 0, 1, 100, 5000 });
      if (g.chance(30)) s.nonblocking = true;
      if (g.chance(40)) rand_stop(g, s.stop, g.chance(10));
      if (g.chance(35) && !s.fork) { int na = (int) g.r.range(1, 4); for (int a = 0; a < na; a++) s.args.push_back(rand_bytes(g, a == 0 ? 40 : 6)); }
      if (g.chance(35)) {
        s.env_null = false;
        int ne = (int) g.r.range(0, 4);
        for (int e = 0; e < ne; e++) s.env_extra.push_back(g.chance(85) ? "N" + rand_bytes(g, 3) + "=" + rand_bytes(g, 12) : rand_bytes(g, 8));
        if (g.chance(30)) s.env_behavior = g.C.ENV_EMPTY;
      }
      Op &op = g.op(OP_START, h);
      op.spec = g.add_start(s);
      op.a = (int64_t) g.r.below(512);
    } else if (k < 31) g.op(OP_PID, h);
    else if (k < 40) { Op &op = g.op(OP_WRITE, h); op.a = g.pick({ 0, 1, 10, 500, 70000 }); op.b = g.chance(8); }
    else if (k < 52) { Op &op = g.op(OP_READ, h); op.a = g.pick({ 0, 1, 1, 2, 2, 3, 7 }); op.b = g.pick({ 0, 1, 7, 100, 4096, 70000 }); }
    else if (k < 58) { Op &op = g.op(OP_CLOSE, h); op.a = g.pick({ 0, 1, 2, 3, -1 }); }
    else if (k < 68) {
      Op &op = g.op(OP_POLL, -1);
      int n = (int) g.r.range(1, 4);
      for (int j = 0; j < n; j++) { op.v.push_back(g.chance(15) ? -1 : (int64_t) g.r.below((uint64_t) nh)); op.v.push_back((int64_t) g.r.below(32)); }
      op.a = g.pick({ 0, 0, 1, 10, 100 });
      if (g.chance(3)) op.b = (int64_t) g.pick({ 1, 2 });
    } else if (k < 76) { Op &op = g.op(OP_WAIT, h); op.a = g.pick({ 0, 0, 1, 10, 100, (int64_t) g.C.DEADLINE_, (int64_t) g.C.INFINITE_ }); }
    else if (k < 80) g.op(OP_TERMINATE, h);
    else if (k < 84) g.op(OP_KILL, h);
    else if (k < 90) { Op &op = g.op(OP_STOP, h); int st[6]; rand_stop(g, st, g.chance(15)); op.a = st[0]; op.b = st[1]; op.c = st[2]; op.d = st[3]; op.e = st[4]; op.f = st[5]; }
    else if (k < 93) { Op &op = g.op(OP_DRAIN, h); op.a = g.pick({ 0, 1, 2, 5 }); op.b = g.pick({ 0, 1, 2, 5 }); if (g.chance(5)) op.a = 6; op.c = g.chance(20) ? (int64_t) g.r.range(1, 5) : 0; op.d = g.pick({ -5, -32, -32, -110, -11, -22 }); op.e = g.chance(30) ? 3 : 0; }
    else if (k < 96) g.op(OP_DESTROY, h);
    else if (k < 98) { Op &op = g.op(OP_STRERROR, -1); op.a = g.pick({ 0, -1, -22, -32, -110, 5, INT_MIN, INT_MAX, -99999 }); }
    else { Op &op = g.op(OP_SLEEP, -1); op.a = g.pick({ 1, 5, 50, 500 }); }
    if (faults && g.chance(12)) add_random_fault(g, (int) g.p.ops.size() - 1, g.p.ops.back().kind);
  }
  // an interrupted reap in the middle of the life cycle: whatever the interrupted call returned, the handle stays usable
  // and the next waits still find the (dead) child
  if (faults && g.chance(std::string(name) == "C19" ? 30 : 6)) {
    int h = (int) g.r.below((uint64_t) nh);
    g.op(OP_KILL, h);
    g.op(OP_SLEEP, -1).a = 2;
    Op &w1 = g.op(g.chance(70) ? OP_WAIT : OP_STOP, h); w1.a = w1.kind == OP_WAIT ? g.pick({ 100, 100, (int64_t) g.C.INFINITE_ }) : g.C.S_WAIT; w1.b = g.pick({ 100, 100, (int64_t) g.C.INFINITE_ });
    g.fault((int) g.p.ops.size() - 1, g.chance(70) ? K_waitpid : K_poll, 1, false, EINTR);
    g.op(OP_SLEEP, -1).a = 2;
    g.op(OP_WAIT, h).a = g.pick({ 0, 50 });
    g.op(OP_WAIT, h).a = 0;
  }
  if (g.chance(85)) destroy_all(g, nh);
  return g.p;
}

// ------------------------------------------------------------------ C01: exit status exact, stable, reaped once
Plan gen_c01(uint64_t seed, const GenOpts &o) {
  G g(seed, "C01", o);
  g.desc_pct = 8;
  world_swarm(g);
  // stratified endings: every exit code and every signal comes round
  uint64_t e = seed % 287;
  bool by_sig = e >= 256;
  int v = by_sig ? (int) (e - 256 + 1) : (int) e;
  int64_t T = g.pick({ 0, 0, 1, 5, 20, 60, 200 });
  ChildSpec c = child_quiet(T, by_sig, v);
  if (g.chance(40)) c.script.insert(c.script.begin(), Step{ Step::WRITE, 1, g.pick({ 1, 100, 5000 }), 0 });
  rand_term(g, c);
  if (g.chance(30)) { c.script.clear(); c.script.push_back(Step{ Step::SLEEP, 0, 100000, 0 }); }  // lives until signalled
  g.add_child(c);
  StartSpec s = simple_start(g, 0);
  if (g.chance(20)) { s.fork = true; s.argv_null = true; }
  if (g.chance(30)) s.deadline = (int) g.pick({ 5, 50, 300 });
  s.stop[0] = g.C.S_KILL; s.stop[1] = g.C.INFINITE_;
  if (g.chance(40)) s.out.type = g.C.R_DISCARD;
  g.op(OP_NEW, 0);
  Op &st = g.op(OP_START, 0);
  st.spec = g.add_start(s);
  st.a = 1;
  int nops = (int) g.r.range(1, 12);
  bool killed = false;
  for (int i = 0; i < nops; i++) {
    switch (g.r.below(9)) {
      case 0: case 1: { Op &op = g.op(OP_WAIT, 0); op.a = g.pick({ 0, 1, 5, 30, 250, (int64_t) g.C.DEADLINE_ }); break; }
      case 2: { Op &op = g.op(OP_STOP, 0); int sp[6]; rand_stop(g, sp, false, killed); op.a = sp[0]; op.b = sp[1]; op.c = sp[2]; op.d = sp[3]; op.e = sp[4]; op.f = sp[5];
                break; }
      case 3: g.op(OP_TERMINATE, 0); break;
      case 4: g.op(OP_KILL, 0); killed = true; break;
      case 5: { Op &op = g.op(OP_POLL, -1); op.v = { 0, (int64_t) g.C.E_EXIT }; op.a = g.pick({ 0, 5, 50 }); break; }
      case 6: case 7: { Op &op = g.op(OP_SLEEP, -1); op.a = g.pick({ 1, 5, 20, 60, 200 }); break; }
      case 8: { Op &op = g.op(OP_WAIT, 0); op.a = killed ? g.C.INFINITE_ : 400; break; }
    }
    if (g.chance(4)) add_random_fault(g, (int) g.p.ops.size() - 1, g.p.ops.back().kind);
    // the child has been collected by somebody else: the honest answer is the error, never an invented status
    else if ((g.p.ops.back().kind == OP_WAIT || g.p.ops.back().kind == OP_STOP) && g.chance(4)) g.fault((int) g.p.ops.size() - 1, K_waitpid, 1, false, ECHILD);
  }
  if (g.chance(50)) { g.op(OP_KILL, 0); Op &w = g.op(OP_WAIT, 0); w.a = g.C.INFINITE_; Op &w2 = g.op(g.chance(50) ? OP_WAIT : OP_STOP, 0); w2.a = 0; }
  g.op(OP_DESTROY, 0);
  return g.p;
}

// ------------------------------------------------------------------ C02: stream fidelity
Plan gen_c02(uint64_t seed, const GenOpts &o) {
  G g(seed, "C02", o);
  g.desc_pct = 8;
  world_swarm(g);
  size_t cap = g.p.w.k.pipe_cap;
  auto size_pick = [&]() -> int64_t {
    int64_t big = g.o.thorough ? 4 * 1024 * 1024 : 256 * 1024;
    if (cap <= 64) big = g.o.thorough ? 20000 : 3000;  // "multi-megabyte relative to capacity"
    return g.pick({ 0, 1, (int64_t) cap - 1, (int64_t) cap, (int64_t) cap + 1, 2 * (int64_t) cap + 3, big / 8, big });
  };
  ChildSpec c;
  int64_t nout = size_pick(), nerr = g.chance(60) ? size_pick() / 4 : 0;
  bool reads_in = g.chance(50);
  bool echo = reads_in && g.chance(40);
  int64_t chunk = g.pick({ 0, 1, 5, 4096, 65536 });
  if (cap <= 64 && chunk == 0) chunk = 16;
  while (chunk > 0 && (nout + nerr) / chunk > 4000) chunk *= 8;  // bound the number of simulated steps
  // interleave stdout and stderr pieces
  int pieces = (int) g.r.range(1, 4);
  if (!echo) {
    for (int i = 0; i < pieces; i++) {
      if (nout > 0) c.script.push_back(Step{ Step::WRITE, 1, nout / pieces + (i == 0 ? nout % pieces : 0), chunk });
      if (nerr > 0) c.script.push_back(Step{ Step::WRITE, 2, nerr / pieces + (i == 0 ? nerr % pieces : 0), chunk });
      if (g.chance(30)) c.script.push_back(Step{ Step::SLEEP, 0, g.pick({ 1, 5 }), 0 });
      // one stream may be closed while the other is still being written
      if (i + 1 < pieces && g.chance(15)) c.script.push_back(Step{ Step::CLOSE, g.chance(50) ? 1 : 2, 0, 0 });
    }
  }
  // one output stream ends early while the other keeps producing small pieces for a while: whatever the library concludes from
  // the hang-up of the first must not touch the second
  bool split_streams = !echo && g.chance(10);
  if (split_streams) {
    c.script.clear();
    int first = g.chance(50) ? 1 : 2, other = 3 - first;
    if (g.chance(60)) c.script.push_back(Step{ Step::WRITE, first, g.pick({ 1, 20, 5000 }), 0 });
    c.script.push_back(Step{ Step::CLOSE, first, 0, 0 });
    int kp = (int) g.r.range(2, 6);
    for (int i = 0; i < kp; i++) {
      c.script.push_back(Step{ Step::SLEEP, 0, g.pick({ 1, 3, 10 }), 0 });
      c.script.push_back(Step{ Step::WRITE, other, g.pick({ 1, 10, 300 }), 0 });
    }
  }
  int64_t in_total_pre = reads_in ? size_pick() / (echo ? 4 : 1) : 0;
  int64_t echunk = g.pick({ 1, 100, 4096 });
  while (in_total_pre / echunk > 3000) echunk *= 8;
  if (reads_in) c.script.push_back(Step{ echo ? Step::ECHO : Step::READ_EOF, 0, 0, echunk });
  if (g.chance(30)) c.script.push_back(Step{ Step::CLOSE, 1, 0, 0 });
  if (g.chance(20)) c.script.push_back(Step{ Step::SLEEP, 0, g.pick({ 1, 10 }), 0 });
  c.script.push_back(Step{ Step::EXIT, 0, (int64_t) g.r.below(256), 0 });
  c.ignore_sigpipe = true;
  g.add_child(c);
  StartSpec s = simple_start(g, 0);
  s.nonblocking = g.chance(40);
  int errmode = (int) g.r.below(4);  // 0 own pipe, 1 -> stdout, 2 discard, 3 parent
  if (split_streams) errmode = 0;
  s.err.type = errmode == 0 ? g.C.R_PIPE : errmode == 1 ? g.C.R_STDOUT : errmode == 2 ? g.C.R_DISCARD : g.C.R_DEFAULT;
  int64_t in_total = in_total_pre;
  bool use_input = reads_in && g.chance(30) && in_total <= (int64_t) cap;
  if (use_input) s.input_size = in_total;
  s.stop[0] = g.C.S_WAIT; s.stop[1] = 2000; s.stop[2] = g.C.S_KILL; s.stop[3] = g.C.INFINITE_;
  g.op(OP_NEW, 0);
  Op &st = g.op(OP_START, 0);
  st.spec = g.add_start(s);
  int nthreads = 1;
  bool threaded = echo || (reads_in && !use_input && g.chance(40));  // writer on its own thread
  if (threaded) nthreads = 2;
  int wt = threaded ? 1 : 0;
  if (reads_in && !use_input) {
    int pieces_w = (int) g.r.range(1, 3);
    int64_t left = in_total;
    // without a separate writer thread a blocking write larger than the pipe would deadlock against an echoing child
    for (int i = 0; i < pieces_w; i++) {
      int64_t n = i == pieces_w - 1 ? left : left / 2;
      left -= n;
      Op &w = g.op(OP_WRITE, 0, wt);
      w.a = n; w.c = 1; w.d = g.pick({ 0, 1, 100, 4096, 70000 });
      while (w.d > 0 && n / w.d > 4000) w.d *= 8;
      if (n == 0) { w.c = 0; }
      if (g.chance(20)) { Op &z = g.op(OP_WRITE, 0, wt); z.a = 0; z.b = g.chance(50); }
    }
    g.op(OP_CLOSE, 0, wt).a = g.C.STREAM_IN;
  }
  // reading side
  int style = (int) g.r.below(4);
  int64_t bufsz = g.pick({ 1, 7, 4096, 65536, 1 << 20 });
  while ((nout + nerr) / bufsz > 4000) bufsz *= 8;  // keep the number of calls bounded
  if (style == 0) {  // read out to the end, then err
    if (g.chance(10)) { Op &z = g.op(OP_READ, 0); z.a = g.C.STREAM_OUT; z.b = 0; }
    Op &r1 = g.op(OP_READ, 0); r1.a = g.C.STREAM_OUT; r1.b = bufsz; r1.c = 1;
    if (errmode == 0) {
      if (nerr > (int64_t) cap) { /* the child may block on stderr while we only read stdout: use drain-like alternation instead */ g.p.ops.pop_back(); style = 1; }
      else { Op &r2 = g.op(OP_READ, 0); r2.a = g.C.STREAM_ERR; r2.b = bufsz; r2.c = 1; }
    }
  }
  if (style == 1 || style == 2) {  // drain with callback sinks
    Op &d = g.op(OP_DRAIN, 0); d.a = 0; d.b = 0;
  }
  if (style == 3) {  // poll + read pairs, bounded, then drain the rest
    int n = (int) g.r.range(1, 6);
    for (int i = 0; i < n; i++) {
      Op &pl = g.op(OP_POLL, -1); pl.v = { 0, (int64_t) (g.C.E_OUT | g.C.E_ERR) }; pl.a = g.pick({ 0, 5, 50 });
      Op &r1 = g.op(OP_READ, 0); r1.a = g.chance(70) ? g.C.STREAM_OUT : g.C.STREAM_ERR; r1.b = bufsz;
      if (!s.nonblocking) { g.p.ops.pop_back(); }  // a blocking read on the wrong stream could deadlock: only poll-guided reads in nonblocking mode
    }
    Op &d = g.op(OP_DRAIN, 0); d.a = 0; d.b = 0;
  }
  // sticky closed error
  if (g.chance(50)) { Op &r3 = g.op(OP_READ, 0); r3.a = g.C.STREAM_OUT; r3.b = 10; }
  Op &w = g.op(OP_WAIT, 0); w.a = 5000;
  g.op(OP_DESTROY, 0);
  if (g.chance(15)) {
    int target = (int) g.r.below(g.p.ops.size());
    // half of the time aim at a write that moves more than a few bytes (a short count must leave a remainder)
    if (g.chance(50))
      for (size_t i = 0; i < g.p.ops.size(); i++)
        if (g.p.ops[i].kind == OP_WRITE && g.p.ops[i].a > 8) { target = (int) i; if (g.chance(50)) break; }
    int kd = g.p.ops[(size_t) target].kind;
    if (kd == OP_READ) g.fault(target, K_read, (int) g.r.range(1, 3), false, g.chance(50) ? EINTR : F_SHORT, 1);
    if (kd == OP_WRITE) {
      g.fault(target, K_write, 1, false, g.chance(50) ? EINTR : F_SHORT, (int) g.pick({ 1, 3 }));
      // a signal storm: a short count first, then an interruption of whatever the library does next inside the same call
      if (g.chance(40)) g.fault(target, K_write, 2, false, EINTR);
    }
    if (kd == OP_DRAIN) g.fault(target, g.chance(50) ? K_poll : K_read, (int) g.r.range(1, 4), false, EINTR);
  }
  (void) nthreads;
  return g.p;
}

// ------------------------------------------------------------------ C03: launch fidelity
std::string rand_bytes(G &g, size_t maxlen) {
  static const char alphabet[] = " \t\"'\\=$*;&|<>()[]{}aZ09_-./\x80\xff\xc3\x28\n";
  size_t n = (size_t) g.r.below(maxlen + 1);
  std::string s;
  for (size_t i = 0; i < n; i++) s += g.chance(50) ? alphabet[g.r.below(sizeof alphabet - 1)] : (char) g.r.range(1, 255);
  return s;
}

Plan gen_c03(uint64_t seed, const GenOpts &o) {
  G g(seed, "C03", o);
  world_swarm(g, false);
  g.p.w.k.jitter_mode = 0;
  // parent working directory depth: short, around the 4096 growth step, beyond PATH_MAX
  switch (seed % 8) {
    case 0: case 1: case 2: break;
    case 3: g.p.w.cwd_depth = 16; g.p.w.cwd_comp = 254; break;                     // 4080 + separators: ~4095
    case 4: g.p.w.cwd_depth = 16; g.p.w.cwd_comp = (int) g.r.range(250, 255); break;
    case 5: g.p.w.cwd_depth = 32; g.p.w.cwd_comp = (int) g.r.range(253, 255); break;  // ~8190: second growth step
    case 6: g.p.w.cwd_depth = (int) g.r.range(15, 17); g.p.w.cwd_comp = 255; break;
    case 7: g.p.w.cwd_depth = (int) g.r.range(30, 50); g.p.w.cwd_comp = (int) g.r.range(200, 255); break;
  }
  if (seed % 8 >= 3 && g.chance(50)) {
    // hit the buffer boundaries exactly: total length of "/" + depth*(comp+1) - ... near k*4096
    int target = (int) g.pick({ 4094, 4095, 4096, 4097, 8190, 8191, 8192, 8193 });
    int depth = target / 256 + 1;
    g.p.w.cwd_depth = depth;
    g.p.w.cwd_comp = target / depth - 1;
  }
  if (g.chance(12)) g.p.w.low_fds = (int) g.r.below(8);  // the caller may have closed some of its standard descriptors
  g.p.w.parent_env.clear();
  int npe = (int) g.r.range(0, 12);
  if (g.chance(6)) npe = (int) g.pick({ 62, 63, 64, 65, 127, 128, 129, 300 });  // counts around typical growth steps of a vector
  bool have_path = false;
  for (int i = 0; i < npe; i++) {
    if (i == 0 && g.chance(70)) { g.p.w.parent_env.push_back(g.chance(50) ? "PATH=/usr/bin:/bin" : "PATH=/bin"); have_path = true; continue; }
    g.p.w.parent_env.push_back("V" + std::to_string(i) + "=" + rand_bytes(g, 20));
  }
  (void) have_path;
  g.add_child(child_quiet(0, false, 0));
  StartSpec s = simple_start(g, 0);
  s.prog = (int) g.pick({ 0, 1, 1, 2, 2, 3, 3, 9, 10 });
  if ((s.prog == 9) && g.p.w.cwd_depth < 1) s.prog = 1;
  s.wd = (int) g.pick({ 0, 0, 1, 1, 4, 5 });
  if (g.chance(8)) s.wd = (int) g.pick({ 2, 3 });
  if (g.chance(5)) s.prog = (int) g.pick({ 4, 5, 7 });
  int na = (int) g.pick({ 0, 1, 2, 5, 40, 40, 63, 64, 65, 200 });
  for (int i = 0; i < na; i++) s.args.push_back(rand_bytes(g, i % 7 == 0 ? 300 : 12));
  s.env_behavior = g.chance(70) ? g.C.ENV_EXTEND : g.C.ENV_EMPTY;
  s.env_null = g.chance(30);
  if (!s.env_null) {
    int ne = (int) g.pick({ 0, 1, 3, 40, 40, 70, 130 });
    for (int i = 0; i < ne; i++) {
      if (i == 0 && g.chance(30)) { s.env_extra.push_back(g.chance(50) ? "PATH=/usr/bin" : "PATH=/work:/bin"); continue; }
      s.env_extra.push_back(g.chance(80) ? "E" + std::to_string(i) + "=" + rand_bytes(g, 16) : rand_bytes(g, 10));
    }
    // entries are passed through as they are: a name the parent also has, the same name twice, an empty name
    if (g.chance(25) && !g.p.w.parent_env.empty()) {
      const std::string &pe = g.p.w.parent_env[g.r.below(g.p.w.parent_env.size())];
      s.env_extra.insert(s.env_extra.begin() + (long) g.r.below(s.env_extra.size() + 1), pe.substr(0, pe.find('=') + 1) + "override");
    }
    if (g.chance(12) && !s.env_extra.empty()) {
      std::string d = s.env_extra[g.r.below(s.env_extra.size())];
      size_t eq = d.find('=');
      s.env_extra.push_back(eq == std::string::npos ? d : d.substr(0, eq + 1) + "again");
    }
    if (g.chance(5)) s.env_extra.push_back("=anonymous");
  }
  if (g.chance(12)) { s.fork = true; s.argv_null = true; s.args.clear(); }
  s.out.type = g.C.R_DISCARD;
  s.in.type = g.C.R_DISCARD;
  s.stop[0] = g.C.S_WAIT; s.stop[1] = g.C.INFINITE_;
  s.clone = g.chance(50);
  g.op(OP_NEW, 0);
  Op &st = g.op(OP_START, 0);
  st.spec = g.add_start(s);
  if (g.chance(25)) {
    Kind ks[] = { K_calloc, K_malloc, K_strdup, K_realloc, K_getcwd };
    Kind k = ks[g.r.below(5)];
    g.fault(1, k, (int) g.r.range(1, k == K_malloc ? 20 : 3), false, k == K_getcwd ? (int) g.pick({ ENOENT, EACCES, ERANGE }) : F_NULL);
  }
  // the program file is busy (somebody has it open for writing) at the first attempt to run it
  else if (!s.fork && g.chance(6)) g.fault(1, K_execvp, 1, true, ETXTBSY);
  Op &w = g.op(OP_WAIT, 0); w.a = g.C.INFINITE_;
  g.op(OP_DESTROY, 0);
  return g.p;
}

// ------------------------------------------------------------------ start scenarios (C04, C05, C06, C12)
StartSpec rand_scenario(G &g, int child) {
  StartSpec s = simple_start(g, child);
  if (g.chance(70)) rand_redirects(g, s);
  if (g.chance(15)) { s.fork = true; s.argv_null = true; }
  if (g.chance(25) && s.in.type == 0 && !s.in.handle && !s.in.file && !s.in.path && !s.parent && !s.discard) s.input_size = g.pick({ 0, 1, 10, 100 });
  if (g.chance(40)) { s.env_null = false; s.env_extra = { "A=1", "B=two" }; }
  if (g.chance(20)) s.env_behavior = g.C.ENV_EMPTY;
  if (g.chance(40)) s.wd = (int) g.pick({ 1, 4, 5 });
  if (g.chance(40)) s.prog = (int) g.pick({ 1, 2, 3, 9, 10 });
  if (g.chance(20)) s.nonblocking = true;
  if (g.chance(20)) s.deadline = (int) g.pick({ 10, 1000 });
  return s;
}

Plan gen_start_scenario(uint64_t seed, const GenOpts &o, const char *name) {
  G g(seed, name, o);
  world_swarm(g, false);
  g.p.w.k.jitter_mode = 0;
  g.p.w.k.rlim_cur = (uint64_t) g.pick({ 24, 32, 64 });
  if (g.chance(30)) g.p.w.low_fds = (int) g.r.below(8);
  if (g.chance(4)) { g.p.w.cwd_depth = 17; g.p.w.cwd_comp = 255; }
  g.p.w.k.errno_clobber = g.chance(30) ? 1 : 0;  // the caller's signal handlers do not preserve errno  // a caller working far below the root: parent path + program beyond PATH_MAX
  if (std::string(name) == "C12") {
    g.p.w.mask = g.r.next();
    int ni = (int) g.r.range(0, 5), nhd = (int) g.r.range(0, 5);
    for (int i = 0; i < ni; i++) g.p.w.ignored.push_back((int) g.r.range(1, 31));
    for (int i = 0; i < nhd; i++) g.p.w.handled.push_back((int) g.r.range(1, 64));
    g.p.w.sigpipe = (int) g.pick({ 0, 1, 1, 2 });  // these plans never write to a pipe themselves
    g.p.w.sa_flags = g.chance(40);
  }
  g.add_child(child_quiet(g.pick({ 0, 5 }), false, (int) g.r.below(256)));
  StartSpec s = rand_scenario(g, 0);
  // unexecutable inputs as scenarios of their own
  switch (g.r.below(12)) {
    case 0: s.prog = 4; break;
    case 1: s.prog = 5; break;
    case 2: s.prog = 6; break;
    case 3: s.prog = 7; break;
    case 4: s.wd = 2; break;
    case 5: s.wd = 3; break;
    case 6: if (!s.file && !s.path && !s.out.type && !s.out.handle && !s.out.file) { s.out.path = (int) g.pick({ 2, 3 }); } break;
    case 7: if (!s.file && !s.path && !s.err.type && !s.err.handle && !s.err.path) { s.err.file = 2; } break;
    default: break;
  }
  if (s.fork) { s.prog = 0; }
  s.stop[0] = g.C.S_KILL; s.stop[1] = g.C.INFINITE_;
  // a bystander: another handle of the same caller whose child has already ended and waits to be reaped by its own handle
  bool bystander = g.chance(25);
  if (bystander) {
    g.add_child(child_quiet(0, false, (int) g.r.range(1, 200)));
    StartSpec sb = simple_start(g, 1);
    sb.in.type = sb.out.type = sb.err.type = g.C.R_DISCARD;
    sb.stop[0] = g.C.S_KILL; sb.stop[1] = g.C.INFINITE_;
    g.op(OP_NEW, 1);
    Op &b = g.op(OP_START, 1); b.spec = g.add_start(sb);
    g.op(OP_SLEEP, -1).a = 1;
  }
  g.op(OP_NEW, 0);
  Op &st = g.op(OP_START, 0);
  st.spec = g.add_start(s);
  st.a = g.chance(50) ? 1 : 0;
  // what later calls do to the world after a start that may have gone wrong half-way
  g.op(OP_PID, 0);
  int n = (int) g.r.range(0, 4);
  for (int i = 0; i < n; i++) {
    switch (g.r.below(5)) {
      case 0: g.op(OP_TERMINATE, 0); break;
      case 1: g.op(OP_KILL, 0); break;
      case 2: g.op(OP_WAIT, 0).a = g.pick({ 0, 10 }); break;
      case 3: { Op &op = g.op(OP_STOP, 0); op.a = g.C.S_TERMINATE; op.b = 5; op.c = g.C.S_KILL; op.d = 50; break; }
      case 4: g.op(OP_SLEEP, -1).a = 10; break;
    }
  }
  // a second, fault-free start must work on a handle whose first start failed
  StartSpec s2 = simple_start(g, 0);
  s2.stop[0] = g.C.S_KILL; s2.stop[1] = g.C.INFINITE_;
  Op &st2 = g.op(OP_START, 0);
  st2.spec = g.add_start(s2);
  g.op(OP_KILL, 0);
  g.op(OP_WAIT, 0).a = g.C.INFINITE_;
  g.op(OP_TERMINATE, 0);
  g.op(OP_DESTROY, 0);
  if (bystander) { g.op(OP_WAIT, 1).a = g.C.INFINITE_; g.op(OP_DESTROY, 1); }
  return g.p;
}

// ------------------------------------------------------------------ C06
Plan gen_c06(uint64_t seed, const GenOpts &o) {
  G g(seed, "C06", o);
  world_swarm(g);
  g.p.w.k.pid_reuse = (unsigned) g.pick({ 1, 1, 2 });
  int nh = (int) g.r.range(1, 3);
  for (int h = 0; h < nh; h++) {
    ChildSpec c = child_quiet(g.pick({ 0, 5, 30, 100000 }), g.chance(20), g.chance(20) ? 9 : (int) g.r.below(200));
    rand_term(g, c);
    g.add_child(c);
  }
  std::vector<bool> started((size_t) nh, false);
  int nops = (int) g.r.range(6, 30);
  for (int h = 0; h < nh; h++) g.op(OP_NEW, h);
  for (int i = 0; i < nops; i++) {
    int h = (int) g.r.below((uint64_t) nh);
    switch (g.r.below(10)) {
      case 0: case 1: {
        StartSpec s = simple_start(g, h);
        s.out.type = g.C.R_DISCARD;
        if (g.chance(30)) rand_stop(g, s.stop);
        else { s.stop[0] = g.C.S_KILL; s.stop[1] = g.C.INFINITE_; }
        Op &op = g.op(OP_START, h); op.spec = g.add_start(s);
        if (g.chance(25)) add_random_fault(g, (int) g.p.ops.size() - 1, OP_START);
        else if (g.chance(8)) {
          // the error path of a start reaps the failed child itself: a child-side failure plus an interrupted reap
          int opi = (int) g.p.ops.size() - 1;
          Kind k = (Kind) g.pick({ K_getrlimit, K_sigmask, K_chdir, K_execvp, K_dup2 });
          g.fault(opi, k, 1, true, k == K_execvp ? ENOENT : k == K_chdir ? EACCES : k == K_dup2 ? EBUSY : EINVAL);
          g.fault(opi, K_waitpid, 1, false, EINTR);
          if (g.chance(30)) g.fault(opi, K_waitpid, 2, false, EINTR);
        }
        break;
      }
      case 2: g.op(OP_TERMINATE, h); break;
      case 3: g.op(OP_KILL, h); break;
      case 4: case 5: g.op(OP_WAIT, h).a = g.pick({ 0, 5, 50, 200 }); break;
      case 6: {
        Op &op = g.op(OP_STOP, h); int st[6]; rand_stop(g, st, false, false);
        // "make sure it is dead": kill and wait for as long as it takes (a kill cannot be ignored, so this always ends)
        if (g.chance(20)) { st[0] = g.C.S_KILL; st[1] = g.C.INFINITE_; st[2] = st[4] = g.C.S_NOOP; st[3] = st[5] = 0; }
        op.a = st[0]; op.b = st[1]; op.c = st[2]; op.d = st[3]; op.e = st[4]; op.f = st[5]; break;
      }
      case 7: { g.op(OP_DESTROY, h); g.op(OP_NEW, h); break; }
      case 8: g.op(OP_SLEEP, -1).a = g.pick({ 1, 10, 50 }); break;
      case 9: g.op(OP_PID, h); break;
    }
    // the reap itself fails (interrupted, or somebody else - a SIGCHLD policy, a foreign wait - took the child): whatever the
    // handle remembers afterwards, later signals still go to its own positive pid or nowhere
    if ((g.p.ops.back().kind == OP_WAIT || g.p.ops.back().kind == OP_STOP) && g.chance(10))
      g.fault((int) g.p.ops.size() - 1, K_waitpid, 1, false, (int) g.pick({ EINTR, ECHILD, ECHILD }));
  }
  for (int h = 0; h < nh; h++) { g.op(OP_KILL, h); g.op(OP_WAIT, h).a = 1000; g.op(OP_TERMINATE, h); g.op(OP_KILL, h); g.op(OP_DESTROY, h); }
  return g.p;
}

// ------------------------------------------------------------------ C07 / C15: stop sequences
void child_for_stop(G &g, ChildSpec &c, int64_t *exit_at) {
  // behaviours: exits by itself at T; dies on SIGTERM after d; turns SIGTERM into exit(c) after d; ignores SIGTERM
  int64_t T = g.pick({ 0, 1, 4, 5, 6, 19, 20, 21, 49, 50, 51, 99, 100, 101, 150, 100000, 100000, 100000 });
  c = child_quiet(T, g.chance(10), g.chance(10) ? 3 : (int) g.r.below(256));
  c.term = (ChildSpec::Term) g.r.below(4);
  c.term_delay_ms = g.pick({ 0, 0, 1, 4, 5, 6, 19, 20, 21, 50, 100 });
  c.term_code = (int) g.r.below(256);
  *exit_at = T;
}

void stratified_stop(G &g, uint64_t seed, int stop[6], bool allow_inf) {
  // all 5^3 action triples come round with the seed; timeouts drawn from the boundary set
  int acts[5] = { g.C.S_NOOP, g.C.S_WAIT, g.C.S_TERMINATE, g.C.S_KILL, 9 };
  uint64_t t = seed % 125;
  for (int i = 0; i < 3; i++) {
    stop[2 * i] = acts[t % 5];
    t /= 5;
    stop[2 * i + 1] = (int) g.pick({ 0, 0, 5, 20, 50, 100, (int64_t) g.C.DEADLINE_, (int64_t) (allow_inf ? g.C.INFINITE_ : 20) });
    if (g.chance(10)) stop[2 * i + 1] = (int) g.r.range(0, 160);
  }
}

Plan gen_c07(uint64_t seed, const GenOpts &o) {
  G g(seed, "C07", o);
  world_swarm(g);
  maybe_clock_step(g, 5);
  ChildSpec c; int64_t T;
  child_for_stop(g, c, &T);
  g.add_child(c);
  StartSpec s = simple_start(g, 0);
  s.out.type = g.C.R_DISCARD;
  s.in.type = g.C.R_DISCARD;
  s.deadline = (int) g.pick({ 0, 0, 3, 25, 60, 120, 500 });
  if (g.chance(15)) { s.fork = true; s.argv_null = true; }
  s.stop[0] = g.C.S_KILL; s.stop[1] = g.C.INFINITE_;
  int mode = (int) g.r.below(10);  // 0-6 direct stop, 7-8 through destroy, 9 through run
  int stop[6];
  stratified_stop(g, seed / 3, stop, c.term != ChildSpec::IGNORE || T < 1000);
  // an infinite wait that nothing can end makes the plan hang (legitimately): keep it rare
  if (mode >= 7) memcpy(s.stop, stop, sizeof stop);
  g.op(OP_NEW, 0);
  Op &st = g.op(OP_START, 0);
  st.spec = g.add_start(s);
  st.a = 0;
  int pre = (int) g.r.below(6);
  if (pre == 4) g.op(OP_TERMINATE, 0);
  if (pre == 5) { g.op(OP_KILL, 0); if (g.chance(50)) g.op(OP_SLEEP, -1).a = 1; }
  if (pre == 1) g.op(OP_SLEEP, -1).a = g.pick({ 1, 5, 20, 60, 150 });
  if (pre == 2) { g.op(OP_SLEEP, -1).a = g.pick({ 5, 60, 150 }); g.op(OP_WAIT, 0).a = 0; }
  if (pre == 3) { g.op(OP_WAIT, 0).a = g.pick({ 0, 10, 200 }); if (g.chance(15)) g.fault((int) g.p.ops.size() - 1, K_waitpid, 1, false, ECHILD); }
  if (mode <= 6 || mode == 9) {
    Op &op = g.op(OP_STOP, 0);
    op.a = stop[0]; op.b = stop[1]; op.c = stop[2]; op.d = stop[3]; op.e = stop[4]; op.f = stop[5];
    if (g.chance(6)) {
      Kind k = (Kind) g.pick({ K_kill, K_poll, K_waitpid });
      g.fault((int) g.p.ops.size() - 1, k, (int) g.r.range(1, 2), false, k == K_kill ? (int) g.pick({ EPERM, ESRCH }) : EINTR, k == K_poll ? (int) g.pick({ 0, 1, 5, 30 }) : 0);
    }
    if (g.chance(40)) { Op &op2 = g.op(OP_STOP, 0); op2.a = g.C.S_WAIT; op2.b = 0; }
  }
  g.op(OP_DESTROY, 0);
  return g.p;
}

Plan gen_c15(uint64_t seed, const GenOpts &o) {
  G g(seed, "C15", o);
  world_swarm(g);
  maybe_clock_step(g, 5);
  ChildSpec c; int64_t T;
  child_for_stop(g, c, &T);
  g.add_child(c);
  StartSpec s = simple_start(g, 0);
  if (g.chance(50)) { s.out.type = g.C.R_DISCARD; s.in.type = g.C.R_DISCARD; }
  s.deadline = (int) g.pick({ 0, 3, 25, 60, 120 });
  s.clone = g.chance(50);  // reproc++ binding: options copied from a long-lived options object
  bool dflt = g.chance(55);
  if (!dflt) stratified_stop(g, seed / 2, s.stop, false);
  // default policy without deadline and a child that never ends by itself would hang: make those rare but present
  if (dflt && s.deadline == 0 && T >= 100000 && !g.chance(5)) s.deadline = 40;
  if (dflt && c.term == ChildSpec::IGNORE && T >= 100000 && !g.chance(5)) { g.p.children[0].term = ChildSpec::DIE_AFTER; }
  int state = (int) (seed % 8);  // 7 = failed start (with deadline) followed by a successful one; 0 never started, 1 failed start, 2 running, 3 exited-unreaped, 4 reaped, 5 child side of fork, 6 NULL
  if (state != 6) g.op(OP_NEW, 0);
  if (state == 1) {
    StartSpec bad = s; bad.prog = 4;
    Op &st = g.op(OP_START, 0); st.spec = g.add_start(bad);
    if (g.chance(50)) { g.p.starts.back().prog = 0; add_random_fault(g, (int) g.p.ops.size() - 1, OP_START); }
  } else if (state == 7) {
    StartSpec bad = s; bad.prog = (int) g.pick({ 4, 5, 7 }); bad.deadline = (int) g.pick({ 5, 30, 80 });
    Op &st1 = g.op(OP_START, 0); st1.spec = g.add_start(bad);
    StartSpec good = s; good.deadline = g.chance(70) ? 0 : s.deadline;
    if (good.deadline == 0 && dflt && T >= 100000) g.p.children[0] = child_quiet(g.pick({ 100, 150, 250 }), false, 4);
    Op &st2 = g.op(OP_START, 0); st2.spec = g.add_start(good);
    if (g.chance(40)) g.op(OP_SLEEP, -1).a = g.pick({ 1, 10, 40 });
  } else if (state >= 2 && state <= 5) {
    if (state == 5) { s.fork = true; s.argv_null = true; }
    Op &st = g.op(OP_START, 0); st.spec = g.add_start(s); st.a = state == 5 ? 1 : 0;
    if (state == 3) g.op(OP_SLEEP, -1).a = T < 1000 ? T + 5 : 5;
    if (state == 4) {
      g.op(OP_KILL, 0); g.op(OP_WAIT, 0).a = g.C.INFINITE_;
      // the child was collected by somebody else (SIGCHLD policy, a foreign wait): the explicit wait reports ECHILD; destroy
      // must still come back at once
      if (g.chance(25)) { g.fault((int) g.p.ops.size() - 1, K_waitpid, 1, false, ECHILD); if (g.chance(50)) { Op &sp = g.op(OP_STOP, 0); sp.a = g.C.S_WAIT; sp.b = g.pick({ 0, 20 }); } }
    }
    if (state == 2 && g.chance(50)) g.op(OP_SLEEP, -1).a = g.pick({ 1, 10, 30, 70 });
  }
  g.op(OP_DESTROY, state == 6 ? -1 : 0);
  // a signal arrives (or memory runs out) while destroy waits for the child: it still may not leave a running or unreaped child behind
  if ((state == 2 || state == 3 || state == 7) && g.chance(8)) {
    int opi = (int) g.p.ops.size() - 1;
    switch (g.r.below(3)) {
      case 0: g.fault(opi, K_poll, (int) g.r.range(1, 2), false, EINTR, (int) g.pick({ 0, 1, 5 })); break;
      case 1: g.fault(opi, K_waitpid, 1, false, EINTR); break;
      case 2: g.fault(opi, K_calloc, (int) g.r.range(1, 2), false, F_NULL); break;
    }
  }
  if (g.chance(30)) g.op(OP_DESTROY, 0);  // destroying again (now NULL) does nothing
  return g.p;
}

// ------------------------------------------------------------------ C08: deadlines and timeouts
Plan gen_c08(uint64_t seed, const GenOpts &o) {
  G g(seed, "C08", o);
  g.desc_pct = 5;
  world_swarm(g);
  maybe_clock_step(g, 6);
  int nh = (int) g.r.range(1, 4);
  static const int64_t dls[] = { 0, 0, 1, 20, 21, 22, 50, 100, 100, 101, 400 };
  // a few plans live for weeks of virtual time: deadlines that expired more than 2^31 / 2^32 ms ago are still expired
  bool ages = g.chance(4);
  for (int h = 0; h < nh; h++) {
    ChildSpec c = child_quiet(g.pick({ 5, 19, 20, 21, 49, 50, 51, 99, 100, 101, 100000, 100000 }), false, (int) g.r.below(256));
    if (ages && g.chance(70)) c = child_quiet(20000000000ll, false, 1);
    if (g.chance(30)) c.script.insert(c.script.begin(), { Step{ Step::SLEEP, 0, g.pick({ 10, 20, 50, 100 }), 0 }, Step{ Step::WRITE, 1, 5, 0 } });
    g.add_child(c);
    g.op(OP_NEW, h);
    StartSpec s = simple_start(g, h);
    s.deadline = (int) dls[g.r.below(sizeof dls / sizeof dls[0])];
    if (g.chance(20)) s.deadline = (int) g.r.range(1, 300);  // "any positive value"
    if (g.chance(3)) s.deadline = (int) g.pick({ INT_MAX, INT_MAX - 1, 1 << 30, 86400000 });
    s.stop[0] = g.C.S_KILL; s.stop[1] = g.C.INFINITE_;
    if (g.chance(30)) s.nonblocking = true;
    if (g.chance(20)) continue;  // stays "not started"
    Op &st = g.op(OP_START, h); st.spec = g.add_start(s);
  }
  int nops = (int) g.r.range(1, 8);
  for (int i = 0; i < nops; i++) {
    switch (g.r.below(6)) {
      case 0: case 1: case 2: {
        Op &op = g.op(OP_POLL, -1);
        int n = (int) g.r.range(1, 6);
        for (int j = 0; j < n; j++) {
          op.v.push_back(g.chance(20) ? -1 : (int64_t) g.r.below((uint64_t) nh));
          op.v.push_back(g.chance(70) ? (int64_t) g.C.E_EXIT : (int64_t) g.r.below(16));
        }
        op.a = g.pick({ 0, 1, 19, 20, 21, 50, 100, 150, (int64_t) g.C.INFINITE_ });
        if (g.chance(15)) op.a = (int64_t) g.r.range(0, 250);
        if (g.chance(2)) op.a = g.pick({ INT_MAX, INT_MAX - 1, 1 << 30 });
        break;
      }
      case 3: case 4: { Op &op = g.op(OP_WAIT, (int) g.r.below((uint64_t) nh)); op.a = g.pick({ 0, 1, 20, 50, 100, (int64_t) g.C.DEADLINE_, (int64_t) g.C.DEADLINE_ }); if (g.chance(15)) op.a = (int64_t) g.r.range(0, 250); break; }
      case 5: g.op(OP_SLEEP, -1).a = g.pick({ 1, 10, 20, 50, 100 }); if (ages) g.p.ops.back().a = g.pick({ 2147483000ll, 2147484000ll, 2147483648ll + 86400000, 4294967000ll, 4294968000ll, 6000000000ll }); break;
    }
  }
  if (g.chance(12)) {
    for (size_t i = 0; i < g.p.ops.size(); i++)
      if ((g.p.ops[i].kind == OP_POLL || g.p.ops[i].kind == OP_WAIT) && g.chance(40)) { g.fault((int) i, K_poll, 1, false, EINTR, (int) g.pick({ 0, 1, 5, 20, 60 })); break; }
  }
  for (int h = 0; h < nh; h++) g.op(OP_DESTROY, h);
  return g.p;
}

// ------------------------------------------------------------------ C09: poll reports exactly the true events
Plan gen_c09(uint64_t seed, const GenOpts &o) {
  G g(seed, "C09", o);
  g.desc_pct = 8;
  world_swarm(g);
  // the caller's own standard descriptors: present and quiet, closed, or (descriptor 0) the hung-up end of a finished pipeline
  if (g.chance(30)) {
    g.p.w.low_fds = (int) g.r.below(8);
    if (!(g.p.w.low_fds & 1) && g.chance(60)) { ExtraFd x; x.fd = 0; x.kind = 1; x.cloexec = false; g.p.w.extra.push_back(x); }
  }
  int nh = (int) g.r.range(1, 4);
  for (int h = 0; h < nh; h++) {
    ChildSpec c;
    // per-stream states: idle, data pending, closed by child; child running / exited
    if (g.chance(40)) c.script.push_back(Step{ Step::SLEEP, 0, g.pick({ 0, 5, 30 }), 0 });
    if (g.chance(50)) c.script.push_back(Step{ Step::WRITE, 1, g.pick({ 1, 10, 5000 }), 0 });
    if (g.chance(30)) c.script.push_back(Step{ Step::WRITE, 2, g.pick({ 1, 10 }), 0 });
    if (g.chance(30)) c.script.push_back(Step{ Step::CLOSE, (int) g.pick({ 0, 1, 2 }), 0, 0 });
    if (g.chance(30)) c.script.push_back(Step{ Step::READ, 0, g.pick({ 1, 100 }), 0 });
    c.script.push_back(Step{ Step::SLEEP, 0, g.pick({ 0, 10, 60, 100000 }), 0 });
    c.script.push_back(Step{ Step::EXIT, 0, (int64_t) g.r.below(256), 0 });
    c.ignore_sigpipe = true;
    g.add_child(c);
    g.op(OP_NEW, h);
    StartSpec s = simple_start(g, h);
    s.err.type = (int) g.pick({ (int64_t) g.C.R_PIPE, (int64_t) g.C.R_PIPE, (int64_t) g.C.R_STDOUT, (int64_t) g.C.R_DEFAULT, (int64_t) g.C.R_DISCARD });
    if (g.chance(15)) s.out.type = g.C.R_DISCARD;
    if (g.chance(15)) s.in.type = g.C.R_DISCARD;
    if (g.chance(15)) { s.fork = true; s.argv_null = true; }
    if (g.chance(20)) s.deadline = (int) g.pick({ 30, 200 });
    s.nonblocking = g.chance(50);
    s.stop[0] = g.C.S_KILL; s.stop[1] = g.C.INFINITE_;
    if (g.chance(10)) continue;
    Op &st = g.op(OP_START, h); st.spec = g.add_start(s);
  }
  int nops = (int) g.r.range(2, 14);
  for (int i = 0; i < nops; i++) {
    int h = (int) g.r.below((uint64_t) nh);
    switch (g.r.below(10)) {
      case 0: case 1: case 2: case 3: case 4: {
        Op &op = g.op(OP_POLL, -1);
        int n = (int) g.r.range(1, 6);
        for (int j = 0; j < n; j++) { op.v.push_back(g.chance(15) ? -1 : (int64_t) g.r.below((uint64_t) nh)); op.v.push_back((int64_t) g.r.below(32)); }
        op.a = g.pick({ 0, 0, 5, 40, 200 });
        break;
      }
      case 5: { Op &op = g.op(OP_CLOSE, h); op.a = g.pick({ 0, 1, 2 }); break; }
      case 6: { Op &op = g.op(OP_READ, h); op.a = g.pick({ 1, 2 }); op.b = g.pick({ 1, 100, 8192 }); if (!g.p.starts.empty() && !g.p.starts[(size_t) std::min((size_t) h, g.p.starts.size() - 1)].nonblocking) g.p.ops.pop_back(); break; }
      case 7: g.op(OP_SLEEP, -1).a = g.pick({ 1, 10, 40, 100 }); break;
      case 8: g.op(OP_WAIT, h).a = g.pick({ 0, 50 }); break;
      case 9: { Op &op = g.op(OP_WRITE, h); op.a = g.pick({ 1, 100 }); if (!g.p.starts.empty() && !g.p.starts[(size_t) std::min((size_t) h, g.p.starts.size() - 1)].nonblocking) g.p.ops.pop_back(); break; }
    }
  }
  for (int h = 0; h < nh; h++) g.op(OP_DESTROY, h);
  return g.p;
}

// ------------------------------------------------------------------ C10: every redirect combination
Plan gen_c10(uint64_t seed, const GenOpts &o) {
  G g(seed, "C10", o);
  world_swarm(g, false);
  g.p.w.k.jitter_mode = 0;
  const ShimConsts &C = g.C;
  // complete enumeration: in(7) x out(7) x err(8) x shorthand(5) x low_fds(8) x nonblocking(2)
  uint64_t e = seed;
  int tin[] = { C.R_DEFAULT, C.R_PIPE, C.R_PARENT, C.R_DISCARD, C.R_HANDLE, C.R_FILE, C.R_PATH };
  int terr[] = { C.R_DEFAULT, C.R_PIPE, C.R_PARENT, C.R_DISCARD, C.R_HANDLE, C.R_FILE, C.R_PATH, C.R_STDOUT };
  int i_in = (int) (e % 7); e /= 7;
  int i_out = (int) (e % 7); e /= 7;
  int i_err = (int) (e % 8); e /= 8;
  int sh = (int) (e % 5); e /= 5;
  g.p.w.low_fds = (int) (e % 8); e /= 8;
  bool nb = e % 2; e /= 2;
  StartSpec s = simple_start(g, 0);
  auto fill = [&](RedirSpec &r, int type, int stream) {
    r.type = type;
    if (type == C.R_HANDLE) r.handle = (int) g.pick({ 1, 2, 3, 4, 5 });
    if (type == C.R_FILE) r.file = stream == 0 ? (int) g.pick({ 1, 1, 5 }) : (int) g.pick({ 1, 1, 3, 4 });
    if (type == C.R_PATH) r.path = (int) g.pick({ 1, 4, 5 });
    // the "type unset but object given" spellings
    if ((type == C.R_HANDLE || type == C.R_FILE || type == C.R_PATH) && g.chance(30)) r.type = C.R_DEFAULT;
  };
  fill(s.in, tin[i_in], 0); fill(s.out, tin[i_out], 1); fill(s.err, terr[i_err], 2);
  switch (sh) {
    case 1: s.parent = true; break;
    case 2: s.discard = true; break;
    case 3: if (i_out == 0 && i_err == 0) s.file = 1; break;
    case 4: if (i_out == 0 && i_err == 0) s.path = (int) g.pick({ 1, 4, 5 }); break;
  }
  s.nonblocking = nb;
  s.stop[0] = g.C.S_KILL; s.stop[1] = g.C.INFINITE_;
  // rounds over the same enumeration: 0 = exec, 1 = fork mode, 2 = exec with one failing call inside start, later ones = a random mix
  uint64_t round = e;
  bool with_fork = round == 1 || (round >= 3 && g.chance(30));
  bool with_fault = round == 2 || (round >= 3 && g.chance(50));
  if (with_fork) { s.fork = true; s.argv_null = true; }
  ChildSpec c;
  c.script.push_back(Step{ Step::WRITE, 1, 3, 0 });
  c.script.push_back(Step{ Step::WRITE, 2, 2, 0 });
  c.script.push_back(Step{ Step::SLEEP, 0, 5, 0 });
  c.script.push_back(Step{ Step::EXIT, 0, 0, 0 });
  c.ignore_sigpipe = true;
  g.add_child(c);
  g.op(OP_NEW, 0);
  Op &st = g.op(OP_START, 0); st.spec = g.add_start(s);
  if (with_fault) {
    // a start that still reports success must have connected the streams as requested; failing is the other legal outcome
    static const struct { Kind k; int err; bool child; } fk[] = {
      { K_fcntl_other, EMFILE, false }, { K_fcntl_other, EINVAL, false }, { K_open, EMFILE, false }, { K_open, EINTR, false }, { K_open, ENFILE, false },
      { K_pipe, EMFILE, false }, { K_dup2, EINTR, true }, { K_dup2, EBUSY, true }, { K_fcntl_other, EMFILE, true }, { K_close, EINTR, false }, { K_close, EIO, false },
      { K_fcntl_setfl, EINVAL, false } };  // (not fileno/F_GETFD: their only failure means "the parent has no such stream", which selects the null device by design)
    auto &f = fk[g.r.below(sizeof fk / sizeof fk[0])];
    g.fault(1, f.k, (int) g.r.range(1, f.k == K_close ? 6 : 3), f.child, f.err);
  }
  // behavioural cross-check: the parent has a pipe end exactly for piped streams
  { Op &w = g.op(OP_WRITE, 0); w.a = 1; }
  if (nb) { Op &r1 = g.op(OP_READ, 0); r1.a = C.STREAM_OUT; r1.b = 16; Op &r2 = g.op(OP_READ, 0); r2.a = C.STREAM_ERR; r2.b = 16; }
  g.op(OP_DESTROY, 0);
  return g.p;
}

// ------------------------------------------------------------------ C11: nothing else is inherited
Plan gen_c11(uint64_t seed, const GenOpts &o) {
  G g(seed, "C11", o);
  world_swarm(g);
  World &w = g.p.w.k;
  uint64_t lim = (uint64_t) g.pick({ 16, 20, 32, 64, 100, 256, 256 });
  if (seed % 200 == 0) lim = (uint64_t) g.pick({ 1024, 20000 });
  if (seed % 200 == 1) lim = (uint64_t) g.pick({ 1048577, 2000000, (int64_t) 0x7fffffffffffffffll, 4294967296ll + 64, 4294967296ll + 1024, 3 * 4294967296ll + 300, 4294967296ll });
  w.rlim_cur = lim;
  if (lim > 4096) w.rlim_max = lim;
  uint64_t span = lim > 4000 ? 4000 : lim;
  int nx = (int) g.r.range(0, 12);
  for (int i = 0; i < nx; i++) {
    ExtraFd x; x.fd = (int) g.r.range(3, (int64_t) span - 1); x.kind = (int) g.r.below(4); x.cloexec = g.chance(40);
    g.p.w.extra.push_back(x);
  }
  if (g.chance(35) && lim <= 100000) { ExtraFd x; x.fd = (int) lim - 1; x.kind = (int) g.r.below(4); x.cloexec = g.chance(20); g.p.w.extra.push_back(x); }
  if (g.chance(10)) g.p.w.low_fds = (int) g.r.below(8);
  bool rlimit_fault = seed % 25 == 3;
  if (rlimit_fault) {
    w.rlim_cur = (uint64_t) g.pick({ 2048, 4096 }); lim = w.rlim_cur;
    for (int i = 0; i < 3; i++) { ExtraFd x; x.fd = (int) g.r.range(1024, (int64_t) lim - 1); x.kind = 0; x.cloexec = false; g.p.w.extra.push_back(x); }
  }
  int nthreads = !rlimit_fault && g.chance(40) ? (int) g.r.range(2, 4) : 1;
  if (nthreads > 1) { w.preempt_num = (unsigned) g.pick({ 10, 30, 60 }); w.reoccupy_num = 0; }
  for (int t = 0; t < nthreads; t++) {
    ChildSpec c;
    c.script.push_back(Step{ Step::READ_EOF, 0, 0, 0 });
    c.script.push_back(Step{ Step::EXIT, 0, t, 0 });
    g.add_child(c);
    if (t > 0 && lim <= 256 && g.chance(35)) {
      // this thread raises the limit and opens a descriptor above the old one while the other threads are inside start
      uint64_t lim2 = lim + (uint64_t) g.pick({ 1, 8, 64, 300 });
      Op &u = g.op(OP_USERFD, -1, t); u.a = 1; u.b = (int64_t) lim2;
      Op &u2 = g.op(OP_USERFD, -1, t); u2.a = 2; u2.b = (int64_t) g.r.range((int64_t) lim, (int64_t) lim2 - 1); u2.c = 0;
      lim = lim2;
    }
    g.op(OP_NEW, t, t);
    StartSpec s = simple_start(g, t);
    if (g.chance(50)) rand_redirects(g, s);
    if (g.chance(15)) { s.fork = true; s.argv_null = true; }
    s.stop[0] = g.C.S_KILL; s.stop[1] = g.C.INFINITE_;
    Op &st = g.op(OP_START, t, t); st.spec = g.add_start(s);
    if (rlimit_fault) g.fault((int) g.p.ops.size() - 1, K_getrlimit, 1, true, (int) g.pick({ EPERM, EINVAL }));
    // a descriptor-flag call failing in the forked child: the start fails or the child is still clean, never a quiet success with more inherited
    else if (nthreads == 1 && g.chance(12)) g.fault((int) g.p.ops.size() - 1, K_fcntl_setfd, (int) g.r.range(1, 6), true, (int) g.pick({ EINTR, EINVAL }));  // (not the query form: the close loop uses it as its is-open probe)
    // the mask reset in the forked child fails (pthread_sigmask hands its error back without touching errno)
    else if (nthreads == 1 && g.chance(6)) g.fault((int) g.p.ops.size() - 1, K_sigmask, (int) g.r.range(1, 2), true, EINVAL);
    g.op(OP_CLOSE, t, t).a = g.C.STREAM_IN;
    g.op(OP_WAIT, t, t).a = 1000;
    g.op(OP_DESTROY, t, t);
  }
  if (nthreads == 1 && lim <= 256 && g.chance(35)) {
    // the limit is raised between two starts and a descriptor above the old limit is opened
    uint64_t lim2 = lim + (uint64_t) g.pick({ 1, 8, 64, 300 });
    Op &u = g.op(OP_USERFD, -1); u.a = 1; u.b = (int64_t) lim2;
    Op &u2 = g.op(OP_USERFD, -1); u2.a = 2; u2.b = (int64_t) lim2 - 1; u2.c = 0;
    if (g.chance(50)) { Op &u3 = g.op(OP_USERFD, -1); u3.a = 2; u3.b = (int64_t) g.r.range((int64_t) lim, (int64_t) lim2 - 1); u3.c = g.chance(30); }
    g.op(OP_NEW, 0);
    StartSpec s2 = simple_start(g, 0);
    s2.stop[0] = g.C.S_KILL; s2.stop[1] = g.C.INFINITE_;
    Op &st2 = g.op(OP_START, 0); st2.spec = g.add_start(s2);
    g.op(OP_DESTROY, 0);
  }
  return g.p;
}

// ------------------------------------------------------------------ C16: drain / run
Plan gen_c16(uint64_t seed, const GenOpts &o) {
  G g(seed, "C16", o);
  g.desc_pct = 8;
  world_swarm(g);
  maybe_clock_step(g, 4);
  size_t cap = g.p.w.k.pipe_cap;
  ChildSpec c;
  int64_t big = cap <= 64 ? 2000 : (g.o.thorough ? 600000 : 40000);
  int pieces = (int) g.r.range(0, 5);
  for (int i = 0; i < pieces; i++) {
    c.script.push_back(Step{ Step::WRITE, g.chance(65) ? 1 : 2, g.pick({ 0, 1, 100, 4095, 4096, 4097, big }), g.pick({ 0, 1, 100, 4096 }) });
    if (g.chance(30)) c.script.push_back(Step{ Step::SLEEP, 0, g.pick({ 1, 10, 40 }), 0 });
    if (i + 1 < pieces && g.chance(12)) c.script.push_back(Step{ Step::CLOSE, g.chance(50) ? 1 : 2, 0, 0 });
  }
  if (g.chance(30)) c.script.push_back(Step{ Step::CLOSE, g.chance(50) ? 1 : 2, 0, 0 });
  if (g.chance(30)) c.script.push_back(Step{ Step::SLEEP, 0, g.pick({ 5, 50, 100000 }), 0 });
  c.script.push_back(Step{ Step::EXIT, 0, (int64_t) g.r.below(256), 0 });
  c.ignore_sigpipe = true;
  rand_term(g, c);
  g.add_child(c);
  StartSpec s = simple_start(g, 0);
  s.clone = g.chance(40);
  s.in.type = g.C.R_DISCARD;
  s.err.type = (int) g.pick({ (int64_t) g.C.R_PIPE, (int64_t) g.C.R_PIPE, (int64_t) g.C.R_STDOUT, (int64_t) g.C.R_DEFAULT, (int64_t) g.C.R_DISCARD });
  s.deadline = (int) g.pick({ 0, 0, 0, 1, 15, 60, 2000 });
  s.nonblocking = g.chance(30);
  s.stop[0] = g.C.S_WAIT; s.stop[1] = 300; s.stop[2] = g.C.S_KILL; s.stop[3] = g.C.INFINITE_;
  bool cxx = g.p.w.binding == 1;
  auto sinks = [&](Op &d) {
    d.a = g.pick({ 0, 0, 0, 1, 1, 2 });
    d.b = g.pick({ 0, 0, 0, 1, 1, 2 });
    if (cxx) { if (g.chance(20)) d.a = g.pick({ 3, 4 }); if (g.chance(20)) d.b = g.pick({ 3, 4 }); }
    if (g.chance(25) && (d.a == 0 || d.b == 0)) { d.c = g.pick({ 1, 2, 3, 4, 6, 9 }); d.d = g.pick({ -5, -22, -110, -32, cxx ? -7 : 7, cxx ? -1 : 1 }); }
    d.e = g.chance(40) ? g.pick({ 1, 5, 300 }) : 0;
  };
  if (g.chance(70)) {
    g.op(OP_NEW, 0);
    Op &st = g.op(OP_START, 0); st.spec = g.add_start(s);
    if (g.chance(20)) g.op(OP_SLEEP, -1).a = g.pick({ 1, 20, 80 });
    Op &d = g.op(OP_DRAIN, 0);
    sinks(d);
    if (g.chance(15)) g.fault((int) g.p.ops.size() - 1, K_realloc, (int) g.r.range(1, 6), false, F_NULL);
    else if (g.chance(10)) g.fault((int) g.p.ops.size() - 1, g.chance(50) ? K_poll : K_read, (int) g.r.range(1, 4), false, EINTR);
    else if (g.chance(5)) g.fault((int) g.p.ops.size() - 1, K_calloc, (int) g.r.range(1, 4), false, F_NULL);
    if (g.chance(30)) { Op &d2 = g.op(OP_DRAIN, 0); sinks(d2); d2.c = 0; if (g.chance(50)) d2.v.push_back(1); }
    g.op(OP_STOP, 0).a = g.C.S_KILL;
    g.op(OP_DESTROY, 0);
  } else {
    Op &r = g.op(OP_RUN, -1);
    s.in.type = 0;
    if (g.chance(50)) { s.err.type = 0; }
    r.spec = g.add_start(s);
    r.f = g.chance(30) ? 0 : 1;
    sinks(r);
    if (r.f == 0) { r.a = r.b = 2; r.c = 0; g.p.starts.back().err.type = 0; g.p.starts.back().in.type = 0; }
    if (g.chance(10)) { g.p.starts.back().prog = (int) g.pick({ 4, 5 }); }
    // "the first error": a sink that fails, then a stop sequence that fails too (a stubborn child and a policy that gives up)
    if (r.c > 0 && g.chance(50)) {
      StartSpec &rs = g.p.starts.back();
      rs.stop[0] = g.C.S_TERMINATE; rs.stop[1] = (int) g.pick({ 0, 5, 30 }); rs.stop[2] = g.chance(50) ? g.C.S_WAIT : g.C.S_NOOP; rs.stop[3] = 5; rs.stop[4] = g.C.S_NOOP; rs.stop[5] = 0;
      ChildSpec &rc = g.p.children[0];
      rc.term = ChildSpec::IGNORE;
      rc.script.insert(rc.script.end() - 1, Step{ Step::SLEEP, 0, 100000, 0 });
    }
    if (g.chance(15)) add_random_fault(g, (int) g.p.ops.size() - 1, OP_RUN);
    else if (g.chance(25)) {
      // the program runs something again and collects the output in the same string variables, edited in place in between
      Op r2 = g.p.ops.back();
      r2.v.assign(1, 1);
      r2.e = g.pick({ 0, 0, 1, 5 });
      r2.c = 0;
      g.p.ops.push_back(r2);
    }
  }
  return g.p;
}

// ------------------------------------------------------------------ C17: nonblocking never blocks
Plan gen_c17(uint64_t seed, const GenOpts &o) {
  G g(seed, "C17", o);
  g.desc_pct = 10;
  world_swarm(g);
  size_t cap = g.p.w.k.pipe_cap;
  ChildSpec c;
  int kind = (int) g.r.below(5);  // idle, slow, never reads/writes, normal, gone but survived by a descendant that holds the pipes open
  if (kind == 0) c.script.push_back(Step{ Step::SLEEP, 0, 100000, 0 });
  if (kind == 1) { c.script.push_back(Step{ Step::SLEEP, 0, 30, 0 }); c.script.push_back(Step{ Step::READ, 0, 10, 0 }); c.script.push_back(Step{ Step::WRITE, 1, (int64_t) cap + 5, 1 }); c.script.push_back(Step{ Step::SLEEP, 0, 100000, 0 }); }
  if (kind == 2) { c.script.push_back(Step{ Step::CLOSE, (int) g.pick({ 0, 1 }), 0, 0 }); c.script.push_back(Step{ Step::SLEEP, 0, 100000, 0 }); }
  if (kind == 3) { c.script.push_back(Step{ Step::WRITE, 1, g.pick({ 1, (int64_t) cap, (int64_t) cap * 3 }), 0 }); c.script.push_back(Step{ Step::READ_EOF, 0, 0, 0 }); }
  if (kind == 4) {
    if (g.chance(40)) c.script.push_back(Step{ Step::WRITE, 1, g.pick({ 1, 100 }), 0 });
    c.script.push_back(Step{ Step::SPAWN, (int) g.pick({ 2, 3, 6, 7, 7 }), g.pick({ 300, 100000 }), 0 });
    c.script.push_back(Step{ Step::EXIT, 0, (int64_t) g.r.below(256), 0 });
    g.desc_pct = 0;
  }
  g.add_child(c);
  StartSpec s = simple_start(g, 0);
  s.nonblocking = g.chance(75);
  if (kind == 4) s.nonblocking = true;
  s.err.type = g.chance(50) ? g.C.R_PIPE : g.C.R_DEFAULT;
  if (g.chance(15)) s.deadline = (int) g.pick({ 5, 20, 60 });  // a deadline bounds waits, not nonblocking calls
  // the mode is a property of the handle, whichever of the three streams happen to be pipes
  if (g.chance(15)) { s.err.type = g.C.R_PIPE; s.in.type = g.chance(70) ? g.C.R_DISCARD : g.C.R_PIPE; s.out.type = g.C.R_DISCARD; }
  if (g.chance(35) && s.in.type != g.C.R_DISCARD) s.input_size = g.pick({ 0, 1, (int64_t) cap - 1, (int64_t) cap, (int64_t) cap + 1, 4 * (int64_t) cap });
  s.stop[0] = g.C.S_KILL; s.stop[1] = g.C.INFINITE_;
  g.op(OP_NEW, 0);
  // the handle may have a history: a start that failed (program not found, bad directory) in the *other* mode
  bool restarted = g.chance(10);
  if (restarted) {
    StartSpec bad = s;
    bad.nonblocking = !s.nonblocking;
    bad.input_size = g.chance(50) ? -1 : 1;
    if (g.chance(50)) bad.prog = (int) g.pick({ 4, 5, 7 }); else bad.wd = (int) g.pick({ 2, 3 });
    Op &b = g.op(OP_START, 0); b.spec = g.add_start(bad);
    if (s.input_size < 0 && g.chance(60)) s.input_size = g.pick({ (int64_t) cap + 1, 4 * (int64_t) cap });
  }
  Op &st = g.op(OP_START, 0); st.spec = g.add_start(s);
  if (!restarted && g.chance(12)) g.fault(1, g.chance(70) ? K_fcntl_setfl : K_fcntl_getfl, (int) g.r.range(1, 4), false, (int) g.pick({ EINVAL, EPERM }));
  if (kind == 4 && g.chance(70)) { if (g.chance(50)) g.op(OP_WAIT, 0).a = 1000; else { Op &sp = g.op(OP_STOP, 0); sp.a = g.C.S_WAIT; sp.b = 1000; } }
  int n = (int) g.r.range(1, 10);
  for (int i = 0; i < n; i++) {
    switch (g.r.below(5)) {
      case 0: case 1: { Op &w = g.op(OP_WRITE, 0); w.a = g.pick({ 1, (int64_t) cap - 1, (int64_t) cap, (int64_t) cap + 1, 4 * (int64_t) cap, 4097 }); break; }
      case 2: case 3: { Op &r = g.op(OP_READ, 0); r.a = g.pick({ 1, 1, 2 }); r.b = g.pick({ 1, 100, 70000 }); break; }
      case 4: g.op(OP_SLEEP, -1).a = g.pick({ 1, 40 }); break;
    }
    if (!s.nonblocking) {
      // blocking mode: only calls the child will eventually satisfy (kind 1: reads 10 bytes then writes; kind 3)
      Op &last = g.p.ops.back();
      if (last.kind == OP_WRITE && !(kind == 3 || (kind == 1 && last.a <= 10 && i == 0))) g.p.ops.pop_back();
      else if (last.kind == OP_READ && !((kind == 1 || kind == 3) && last.a == 1)) g.p.ops.pop_back();
    }
  }
  g.op(OP_DESTROY, 0);
  return g.p;
}

// ------------------------------------------------------------------ C20: threads
Plan gen_c20(uint64_t seed, const GenOpts &o) {
  G g(seed, "C20", o);
  world_swarm(g);
  World &w = g.p.w.k;
  w.preempt_num = (unsigned) g.pick({ 10, 30, 60, 100 });
  w.reoccupy_num = 0;
  if (g.chance(50)) g.p.w.mask = g.r.next();  // every thread gets its own rotation of this mask
  int scenario = (int) (seed % 4);
  if (scenario == 3) {
    // thread 0: a child that closes its stdin at once; writes fail with the closed-pipe error while thread 1 starts children
    // whose descriptors may re-use the numbers thread 0's handle gave up
    ChildSpec a;
    a.script.push_back(Step{ Step::CLOSE, 0, 0, 0 });
    a.script.push_back(Step{ Step::SLEEP, 0, 300, 0 });
    a.script.push_back(Step{ Step::EXIT, 0, 3, 0 });
    g.add_child(a);
    ChildSpec b;
    b.script.push_back(Step{ Step::READ_EOF, 0, 0, 0 });
    b.script.push_back(Step{ Step::WRITE, 1, 4, 0 });
    b.script.push_back(Step{ Step::EXIT, 0, 4, 0 });
    g.add_child(b);
    StartSpec sa = simple_start(g, 0), sb = simple_start(g, 1);
    sa.stop[0] = sb.stop[0] = g.C.S_WAIT; sa.stop[1] = sb.stop[1] = 1000; sa.stop[2] = sb.stop[2] = g.C.S_KILL; sa.stop[3] = sb.stop[3] = g.C.INFINITE_;
    g.op(OP_NEW, 0, 0);
    Op &s0 = g.op(OP_START, 0, 0); s0.spec = g.add_start(sa);
    g.op(OP_SLEEP, -1, 0).a = 5;
    g.op(OP_WRITE, 0, 0).a = 10;   // closed-pipe error: the handle gives up its stdin descriptor
    g.op(OP_SLEEP, -1, 0).a = 30;
    g.op(OP_WRITE, 0, 0).a = 18;   // must still be the closed-pipe error, not somebody else's stdin
    g.op(OP_CLOSE, 0, 0).a = g.C.STREAM_IN;
    g.op(OP_SLEEP, -1, 0).a = 20;
    g.op(OP_WAIT, 0, 0).a = 2000;
    g.op(OP_DESTROY, 0, 0);
    int nb = (int) g.r.range(1, 3);
    for (int k = 0; k < nb; k++) {
      int h = 1 + k;
      g.op(OP_NEW, h, 1);
      if (k == 0) g.op(OP_SLEEP, -1, 1).a = g.pick({ 8, 12, 20 });
      Op &s1 = g.op(OP_START, h, 1); s1.spec = g.add_start(sb);
      g.op(OP_SLEEP, -1, 1).a = g.pick({ 30, 60, 100 });
      Op &w1 = g.op(OP_WRITE, h, 1); w1.a = 7; w1.c = 1;
      g.op(OP_CLOSE, h, 1).a = g.C.STREAM_IN;
      Op &r1 = g.op(OP_READ, h, 1); r1.a = g.C.STREAM_OUT; r1.b = 16; r1.c = 1;
      g.op(OP_WAIT, h, 1).a = 2000;
      g.op(OP_DESTROY, h, 1);
    }
  } else if (scenario == 0) {
    // reader + writer thread on one child (echo), optionally a second reader on stderr
    ChildSpec c;
    c.script.push_back(Step{ Step::ECHO, 0, 0, g.pick({ 1, 64, 4096 }) });
    c.script.push_back(Step{ Step::WRITE, 2, 10, 0 });
    c.script.push_back(Step{ Step::EXIT, 0, 5, 0 });
    c.ignore_sigpipe = true;
    g.add_child(c);
    StartSpec s = simple_start(g, 0);
    s.err.type = g.C.R_PIPE;
    s.stop[0] = g.C.S_WAIT; s.stop[1] = 1000; s.stop[2] = g.C.S_KILL; s.stop[3] = g.C.INFINITE_;
    g.op(OP_NEW, 0, 0);
    Op &st = g.op(OP_START, 0, 0); st.spec = g.add_start(s);
    // thread 1 writes, thread 0 reads stdout, thread 2 reads stderr
    int64_t total = g.pick({ 10, 1000, 70000 });
    // thread 0 must have started the child before the others touch it: they begin with a sleep
    g.op(OP_SLEEP, -1, 1).a = 1;
    bool polling = g.chance(40);  // the reader drains (poll + read), the writer asks poll whether stdin has room before it writes
    if (polling) {
      int np = (int) g.r.range(1, 3);
      for (int q = 0; q < np; q++) {
        Op &pw = g.op(OP_POLL, 0, 1); pw.v.push_back(0); pw.v.push_back((int64_t) g.C.E_IN); pw.a = g.pick({ 0, 5, 100 });  // (h = 0: sequenced after the handle's start like every other use of it)
        Op &w1 = g.op(OP_WRITE, 0, 1); w1.a = total / np + (q == 0 ? total % np : 0); w1.c = 1; w1.d = g.pick({ 0, 7, 4096 });
      }
    } else {
      Op &wr = g.op(OP_WRITE, 0, 1); wr.a = total; wr.c = 1; wr.d = g.pick({ 0, 7, 4096 });
    }
    g.op(OP_CLOSE, 0, 1).a = g.C.STREAM_IN;
    if (polling) {
      Op &dr = g.op(OP_DRAIN, 0, 0); dr.a = 0; dr.b = 0;
    } else {
      g.op(OP_SLEEP, -1, 2).a = 1;
      Op &re = g.op(OP_READ, 0, 2); re.a = g.C.STREAM_ERR; re.b = 100; re.c = 1;
      Op &ro = g.op(OP_READ, 0, 0); ro.a = g.C.STREAM_OUT; ro.b = g.pick({ 1, 100, 8192 }); ro.c = 1;
    }
    g.op(OP_SLEEP, -1, 0).a = 50;
    g.op(OP_WAIT, 0, 0).a = 2000;
    g.op(OP_SLEEP, -1, 0).a = 200;
    g.op(OP_DESTROY, 0, 0);
  } else {
    // N threads, each a complete start / communicate / wait / destroy cycle on its own child
    int n = (int) g.r.range(2, 4);
    // a share of these plans is about time: every thread starts a long-lived child with a deadline and waits for that deadline,
    // while threads get stalled for up to seconds between two of their own instructions
    bool timed = scenario == 2 && g.chance(30);
    if (timed) {
      w.stall_num = (unsigned) g.pick({ 0, 50, 150, 300 });
      w.preempt_num = (unsigned) g.pick({ 30, 60, 100 });
      for (int t = 0; t < n; t++) {
        g.add_child(child_quiet(100000, false, 20 + t));
        g.op(OP_NEW, t, t);
        StartSpec s = simple_start(g, t);
        s.in.type = s.out.type = g.C.R_DISCARD;
        s.deadline = (int) g.pick({ 20, 50, 120, 400 });
        s.stop[0] = g.C.S_KILL; s.stop[1] = g.C.INFINITE_;
        if (t > 0 && g.chance(50)) g.op(OP_SLEEP, -1, t).a = g.pick({ 1, 5, 30 });
        Op &st = g.op(OP_START, t, t); st.spec = g.add_start(s);
        if (g.chance(50)) { Op &pl = g.op(OP_POLL, t, t); pl.v.push_back(t); pl.v.push_back((int64_t) g.C.E_EXIT); pl.a = g.pick({ 10, 1000, (int64_t) g.C.INFINITE_ }); }
        g.op(OP_WAIT, t, t).a = g.C.DEADLINE_;
        g.op(OP_DESTROY, t, t);
      }
      return g.p;
    }
    for (int t = 0; t < n; t++) {
      ChildSpec c;
      c.script.push_back(Step{ Step::WRITE, 1, g.pick({ 5, 500 }), 0 });
      c.script.push_back(Step{ Step::READ_EOF, 0, 0, 0 });
      c.script.push_back(Step{ Step::WRITE, 1, 3, 0 });
      c.script.push_back(Step{ Step::EXIT, 0, 10 + t, 0 });
      g.add_child(c);
      int cycles = scenario == 2 ? (int) g.r.range(1, 3) : 1;
      for (int k = 0; k < cycles; k++) {
        g.op(OP_NEW, t, t);
        StartSpec s = simple_start(g, t);
        s.stop[0] = g.C.S_WAIT; s.stop[1] = 1000; s.stop[2] = g.C.S_KILL; s.stop[3] = g.C.INFINITE_;
        if (g.chance(30)) { s.env_null = false; s.env_extra = { "T=" + std::to_string(t) }; }
        if (g.chance(30)) s.wd = 1;
        if (g.chance(40)) { s.wd = (int) g.pick({ 1, 5 }); s.prog = (int) g.pick({ 1, 2, 10 }); }
        if (g.chance(35)) s.err.path = 1;  // a redirect file that has to be created
        if (g.chance(12)) { s.fork = true; s.argv_null = true; s.prog = 0; }  // a forked copy of the caller instead of a program
        else if (g.chance(10)) s.prog = (int) g.pick({ 4, 5 });  // a start that fails in the child while the other threads' children come and go
        Op &st = g.op(OP_START, t, t); st.spec = g.add_start(s);
        Op &wr = g.op(OP_WRITE, t, t); wr.a = g.pick({ 1, 100 }); wr.c = 1;
        g.op(OP_CLOSE, t, t).a = g.C.STREAM_IN;
        // a close that reports EINTR has closed the descriptor all the same: the number may already be another thread's
        if (g.chance(15)) g.fault((int) g.p.ops.size() - 1, K_close, 1, false, EINTR);
        if (g.chance(40)) { Op &dr = g.op(OP_DRAIN, t, t); dr.a = 0; dr.b = 0; }  // several threads inside drain at once, each on its own handle
        else { Op &rd = g.op(OP_READ, t, t); rd.a = g.C.STREAM_OUT; rd.b = 64; rd.c = 1; }
        g.op(OP_WAIT, t, t).a = 3000;
        if (t == 0) g.op(OP_STRERROR, -1, t).a = -22;
        g.op(OP_DESTROY, t, t);
      }
    }
  }
  return g.p;
}

}  // namespace

Plan gen_plan(const std::string &profile, uint64_t seed, const GenOpts &o) {
  if (profile == "C01") return gen_c01(seed, o);
  if (profile == "C02") return gen_c02(seed, o);
  if (profile == "C03") return gen_c03(seed, o);
  if (profile == "C04") return gen_start_scenario(seed, o, "C04");
  if (profile == "C05") return seed % 2 ? gen_c14(seed, o, "C05") : gen_start_scenario(seed, o, "C05");
  if (profile == "C06") return gen_c06(seed, o);
  if (profile == "C07") return gen_c07(seed, o);
  if (profile == "C08") return gen_c08(seed, o);
  if (profile == "C09") return gen_c09(seed, o);
  if (profile == "C10") return gen_c10(seed, o);
  if (profile == "C11") return gen_c11(seed, o);
  if (profile == "C12") return gen_start_scenario(seed, o, "C12");
  if (profile == "C15") return gen_c15(seed, o);
  if (profile == "C16") return gen_c16(seed, o);
  if (profile == "C17") return gen_c17(seed, o);
  if (profile == "C19") return gen_c14(seed, o, "C19");
  if (profile == "C20") return gen_c20(seed, o);
  return gen_c14(seed, o);
}

std::vector<Outcome> outcomes_for(Kind k, bool child_side) {
  (void) child_side;
  switch (k) {
    case K_pipe: return { { EMFILE, 0, false }, { ENFILE, 0, false } };
    case K_fcntl_getfd: case K_fcntl_getfl: return { { EINVAL, 0, true } };
    case K_fcntl_setfd: case K_fcntl_setfl: return { { EINVAL, 0, true } };
    case K_fcntl_other: return { { EMFILE, 0, false }, { EINVAL, 0, true } };  // F_DUPFD / F_DUPFD_CLOEXEC
    case K_read: return { { EINTR, 0, false } };  // (a read on a pipe has no other transient failure: EIO and friends cannot happen there)
    case K_write: return { { EINTR, 0, false }, { EAGAIN, 0, false }, { F_SHORT, 1, false } };
    case K_poll: return { { EINTR, 0, false }, { ENOMEM, 0, false } };
    case K_open: return { { EMFILE, 0, false }, { ENFILE, 0, false }, { EINTR, 0, false }, { ENOMEM, 0, false } };
    case K_close: return { { EINTR, 0, false }, { EIO, 0, false } };
    case K_dup2: return { { EINTR, 0, false }, { EBUSY, 0, false } };
    case K_fork: return { { EAGAIN, 0, false }, { ENOMEM, 0, false } };
    case K_execvp: return { { ENOENT, 0, false }, { EACCES, 0, false }, { ENOEXEC, 0, false }, { E2BIG, 0, false }, { ENOMEM, 0, false } };
    case K_waitpid: return { { EINTR, 0, false }, { ECHILD, 0, false } };  // ECHILD: SIGCHLD ignored / SA_NOCLDWAIT, or somebody else reaped
    case K_kill: return { { ESRCH, 0, false }, { EPERM, 0, false } };
    case K_sigaction: return { { EFAULT, 0, true } };  // EINVAL means "no such signal" and is skipped by design
    case K_sigmask: return { { EINVAL, 0, true } };
    case K_sigfillset: case K_sigemptyset: return { { EINVAL, 0, true } };
    case K_getrlimit: return { { EINVAL, 0, true }, { EPERM, 0, true } };
    case K_getcwd: return { { ERANGE, 0, false }, { ENOENT, 0, false }, { EACCES, 0, false } };
    case K_chdir: return { { ENOENT, 0, false }, { EACCES, 0, false }, { ENOTDIR, 0, false } };
    case K_fileno: return { { EBADF, 0, true } };
    case K_malloc: case K_calloc: case K_realloc: case K_strdup: return { { F_NULL, 0, false } };
    default: return {};
  }
}
