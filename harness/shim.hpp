// Plain-data interface between the harness and reproc's two bindings.
//
// Everything that includes a header from /repo lives in harness/shim/*.cc and
// is recompiled from the working tree on every check, so a change to a public
// header (struct layout, enumerator values, reproc++ templates) can never be
// hidden by a cached object.
#pragma once
#include <cstddef>
#include <cstdint>

struct ShimRedirect {
  int type = 0;
  int handle = 0;
  const void *file = nullptr;  // FILE*
  const char *path = nullptr;
};

struct ShimOptions {
  const char *working_directory = nullptr;
  int env_behavior = 0;
  const char *const *env_extra = nullptr;
  ShimRedirect in, out, err;
  bool parent = false, discard = false;
  const void *file = nullptr;
  const char *path = nullptr;
  int stop[6] = { 0, 0, 0, 0, 0, 0 };  // action,timeout x3
  int deadline = 0;
  const uint8_t *input = nullptr;
  size_t input_size = 0;
  bool fork = false;
  bool nonblocking = false;
  bool clone = false;  // C++ binding only: pass the options through options::clone first
};

struct ShimSource { void *process; int interests; int events; };

// sink callback: returns non-zero to stop. `which` 0 = out sink, 1 = err sink.
typedef int (*ShimSinkFn)(void *ctx, int which, int stream_tag, const uint8_t *buf, size_t size);

struct ShimConsts {
  int EINVAL_, EPIPE_, ETIMEDOUT_, ENOMEM_, EWOULDBLOCK_;
  int SIGKILL_, SIGTERM_, INFINITE_, DEADLINE_;
  int STREAM_IN, STREAM_OUT, STREAM_ERR;
  int R_DEFAULT, R_PIPE, R_PARENT, R_DISCARD, R_STDOUT, R_HANDLE, R_FILE, R_PATH;
  int S_NOOP, S_WAIT, S_TERMINATE, S_KILL;
  int E_IN, E_OUT, E_ERR, E_EXIT, E_DEADLINE;
  int ENV_EXTEND, ENV_EMPTY;
};

// Raw result of a binding call: value + error (C: value<0 is the error).
struct ShimRet {
  long long value = 0;  // C return value, or the value half of the C++ pair
  int ec = 0;           // C++: error_code value (0 = success); C: 0
  int cat = 0;          // C++: 0 none, 1 system_category, 2 generic_category, 3 other
  bool flag = false;    // C++ fork(): the bool half
};

struct ShimApi {
  const char *name;
  ShimConsts (*consts)();
  void *(*new_)();
  ShimRet (*start)(void *, const char *const *argv, const ShimOptions &);
  ShimRet (*pid)(void *);
  ShimRet (*poll)(ShimSource *, size_t n, int timeout);
  ShimRet (*read)(void *, int stream, uint8_t *buf, size_t n);
  ShimRet (*write)(void *, const uint8_t *buf, size_t n);
  ShimRet (*close)(void *, int stream);
  ShimRet (*wait)(void *, int timeout);
  ShimRet (*terminate)(void *);
  ShimRet (*kill)(void *);
  ShimRet (*stop)(void *, const int stop[6]);
  void *(*destroy)(void *);
  const char *(*strerror_)(int);
  // drain with callback sinks; sink kinds: 0 callback, 1 library string sink (C: reproc_sink_string,
  // C++: sink::string), 2 discard/null sink, 3 (C++) sink::ostream, 4 (C++) thread_safe::string
  ShimRet (*drain)(void *, int out_kind, int err_kind, ShimSinkFn fn, void *ctx, char **out_str, char **err_str);
  ShimRet (*run)(const char *const *argv, const ShimOptions &, int mode, int out_kind, int err_kind, ShimSinkFn fn, void *ctx,
                 char **out_str, char **err_str);
  void (*free_)(void *);
};

extern const ShimApi shim_c;
extern const ShimApi shim_cxx;

// Normalised result: what a C caller would have seen.
static inline long long shim_norm(const ShimRet &r) { return r.ec ? -(long long) r.ec : r.value; }
