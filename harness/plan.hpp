// A plan is everything that determines one simulated execution.
#pragma once
#include <cstdint>
#include <string>
#include <vector>

#include "json.hpp"
#include "simk.hpp"

struct RedirSpec {
  int type = 0;    // REPROC_REDIRECT value (0 = default)
  int handle = 0;  // 0 unset, 1 user pipe (proper end), 2 user file descriptor, 3 user /dev/null descriptor, 4 the caller's descriptor 1, 5 the caller's descriptor 2
  int file = 0;    // 0 unset, 1 FILE* over a user file descriptor, 2 FILE* without descriptor, 3 stdout, 4 stderr, 5 stdin
  int path = 0;    // 0 unset, 1 creatable path, 2 missing directory, 3 unwritable directory, 4 existing file, 5 /dev/null
};

struct StartSpec {
  RedirSpec in, out, err;
  bool parent = false, discard = false;
  int file = 0;  // shorthand, same coding as RedirSpec::file
  int path = 0;  // shorthand, same coding as RedirSpec::path
  int env_behavior = 0;
  bool env_null = true;             // env.extra == NULL
  std::vector<std::string> env_extra;
  int wd = 0;    // 0 NULL, 1 /work (valid), 2 missing, 3 not a directory, 4 "." , 5 relative "sub"
  int prog = 0;  // 0 /bin/prog, 1 ./prog, 2 sub/prog, 3 bare "prog" (PATH), 4 /bin/missing, 5 /bin/noexec, 6 /bin (directory), 7 bare missing, 8 "" (empty), 9 ../<cwd name>/prog, 10 .hidden/prog
  std::vector<std::string> args;
  bool argv_null = false;
  bool argv_empty = false;          // argv is a non-NULL array whose first element is NULL
  int64_t input_size = -1;  // -1: no input
  bool input_bad = false;   // size>0 with NULL data
  int deadline = 0;
  int stop[6] = { 0, 0, 0, 0, 0, 0 };
  bool fork = false;
  bool nonblocking = false;
  int child = 0;  // child spec index
  bool clone = false;
};

enum OpKind : int {
  OP_NEW, OP_START, OP_PID, OP_WRITE, OP_READ, OP_CLOSE, OP_POLL, OP_WAIT, OP_TERMINATE, OP_KILL, OP_STOP, OP_DRAIN, OP_RUN,
  OP_DESTROY, OP_STRERROR, OP_SLEEP, OP_USERFD, OP_PROBE, OP_COUNT
};
extern const char *const op_name[OP_COUNT];

struct Op {
  int kind = OP_SLEEP;
  int thread = 0;
  int h = -1;            // handle slot (-1: NULL handle where allowed)
  int spec = -1;         // START / RUN: start spec index
  int64_t a = 0, b = 0, c = 0, d = 0, e = 0, f = 0;
  std::vector<int64_t> v;  // POLL: [h,interests]*
};

struct ExtraFd { int fd = -1; int kind = 0; bool cloexec = false; };  // kind 0 /dev/null, 1 pipe read end, 2 pipe write end, 3 file

struct WorldSpec {
  simk::World k;
  int low_fds = 7;          // bit i: caller's descriptor i is open
  bool sa_flags = false;    // the caller's handlers carry SA_RESTART|SA_SIGINFO and SIGCHLD carries SA_NOCLDWAIT
  int sigpipe = 0;          // caller's SIGPIPE disposition: 0 ignored (what the README asks for), 1 default, 2 a handler (plans without writes only)
  std::vector<ExtraFd> extra;
  int cwd_depth = 1;        // number of components below /
  int cwd_comp = 4;         // component length
  std::vector<std::string> parent_env;
  uint64_t mask = 0;
  std::vector<int> ignored, handled;
  int binding = 0;          // 0 C, 1 C++
  int nthreads = 1;
};

struct Plan {
  uint64_t seed = 0;
  std::string profile;
  WorldSpec w;
  std::vector<simk::ChildSpec> children;
  std::vector<StartSpec> starts;
  std::vector<Op> ops;
  std::vector<simk::Fault> faults;
  std::vector<uint32_t> sched;  // recorded decisions (replay) — empty: draw from seed
  bool use_sched = false;

  Json to_json() const;
  static bool from_json(const Json &j, Plan *p);
};

struct Viol {
  std::string prop;   // C01..C20
  std::string cls;    // violation class
  std::string sig;    // signature: property/class/discriminating facts
  std::string detail;
  int op = -1;
};

