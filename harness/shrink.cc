// Plan minimisation: greedy delta debugging over ops, faults, script steps, world knobs and schedule.
#include "check.hpp"

#include <cstdio>
#include <cstdlib>
#include <cstring>
#include <fnmatch.h>
#include <sys/wait.h>
#include <unistd.h>

using namespace simk;

bool has_viol(const CaseResult &r, const std::string &prop, const std::string &cls, std::string *sig, std::string *detail) {
  for (auto &v : r.viols)
    if (v.prop == prop && v.cls == cls) {
      if (sig) *sig = v.sig;
      if (detail) *detail = v.detail;
      return true;
    }
  return false;
}

CaseResult run_case_forked(const PropCfg &cfg, const Plan &plan) {
  int fds[2];
  CaseResult out;
  if (pipe(fds) < 0) { out.ok = false; return out; }
  fflush(stdout);
  pid_t pid = fork();
  if (pid == 0) {
    close(fds[0]);
    CaseResult r = run_case(cfg, plan);
    Json j = Json::obj();
    j.set("hash", (unsigned long long) r.log_hash);
    Json vs = Json::arr();
    for (auto &v : r.viols) vs.push(Json::arr().push(v.prop).push(v.cls).push(v.sig).push(v.detail).push(v.op));
    j.set("viols", vs);
    std::string s = j.dump();
    size_t off = 0;
    while (off < s.size()) { ssize_t n = write(fds[1], s.data() + off, s.size() - off); if (n <= 0) break; off += (size_t) n; }
    _exit(0);
  }
  close(fds[1]);
  std::string s;
  char buf[4096];
  for (;;) { ssize_t n = read(fds[0], buf, sizeof buf); if (n <= 0) break; s.append(buf, (size_t) n); }
  close(fds[0]);
  int status = 0;
  waitpid(pid, &status, 0);
  Json j;
  if (!WIFEXITED(status) || WEXITSTATUS(status) != 0 || !Json::parse(s, j)) {
    out.ok = false;
    out.crash_status = status;
    Viol v;
    v.prop = cfg.id;
    v.cls = "crash";
    bool san = WIFEXITED(status) && (WEXITSTATUS(status) == 77 || WEXITSTATUS(status) == 66);
    v.sig = std::string(cfg.id) + "/crash/" + (san ? "sanitizer" : WIFSIGNALED(status) ? "signal-" + std::to_string(WTERMSIG(status)) : "exit");
    v.detail = "the run crashed (sanitizer report, abort or fatal signal) while executing the plan";
    out.viols.push_back(v);
    return out;
  }
  out.log_hash = (uint64_t) j.num("hash");
  const Json &vs = j.at("viols");
  for (size_t i = 0; i < vs.size(); i++) {
    Viol v;
    v.prop = vs[i][0].s; v.cls = vs[i][1].s; v.sig = vs[i][2].s; v.detail = vs[i][3].s; v.op = (int) vs[i][4].as_int();
    out.viols.push_back(v);
  }
  return out;
}

static Plan remove_op(const Plan &p, size_t idx) {
  Plan q = p;
  q.ops.erase(q.ops.begin() + (long) idx);
  std::vector<Fault> nf;
  for (auto f : q.faults) {
    if (f.op == (int) idx) continue;
    if (f.op > (int) idx) f.op--;
    nf.push_back(f);
  }
  q.faults = nf;
  q.use_sched = false;
  q.sched.clear();
  return q;
}

Plan shrink_plan(const PropCfg &cfg, const Plan &plan, const std::string &prop, const std::string &cls, int budget, int *runs_used) {
  Plan best = plan;
  int runs = 0;
  auto fails = [&](const Plan &cand) {
    if (runs >= budget) return false;
    runs++;
    CaseResult r = run_case_forked(cfg, cand);
    return has_viol(r, prop, cls);
  };
  bool progress = true;
  while (progress && runs < budget) {
    progress = false;
    // chunks of ops first, then single ops
    for (size_t chunk = best.ops.size() / 2; chunk >= 1; chunk /= 2) {
      for (size_t i = best.ops.size(); i >= chunk && i > 0;) {
        i -= chunk;
        Plan cand = best;
        for (size_t k = 0; k < chunk && i < cand.ops.size(); k++) cand = remove_op(cand, i);
        if (cand.ops.size() < best.ops.size() && fails(cand)) { best = cand; progress = true; }
        if (i == 0) break;
      }
      if (chunk == 1) break;
    }
    for (size_t i = best.faults.size(); i-- > 0;) {
      Plan cand = best;
      cand.faults.erase(cand.faults.begin() + (long) i);
      cand.use_sched = false;
      if (fails(cand)) { best = cand; progress = true; }
    }
    for (size_t c = 0; c < best.children.size(); c++)
      for (size_t s = best.children[c].script.size(); s-- > 0;) {
        Plan cand = best;
        cand.children[c].script.erase(cand.children[c].script.begin() + (long) s);
        cand.use_sched = false;
        if (fails(cand)) { best = cand; progress = true; }
      }
    // world simplifications
    auto try_world = [&](auto &&edit) {
      Plan cand = best;
      edit(cand);
      cand.use_sched = false;
      if (cand.to_json().dump() != best.to_json().dump() && fails(cand)) { best = cand; progress = true; }
    };
    try_world([](Plan &q) { q.w.k.preempt_num = 0; });
    try_world([](Plan &q) { q.w.k.jitter_mode = 0; });
    try_world([](Plan &q) { q.w.k.reoccupy_num = 0; });
    try_world([](Plan &q) { q.w.k.pid_reuse = 0; });
    try_world([](Plan &q) { q.w.k.zombie_gap = 0; });
    try_world([](Plan &q) { q.w.k.core_dumps = 0; });
    try_world([](Plan &q) { q.w.k.stall_num = 0; });
    try_world([](Plan &q) { q.w.k.errno_clobber = 0; });
    try_world([](Plan &q) { q.w.k.clock_step_at_ms = -1; q.w.k.clock_step_ms = 0; });
    try_world([](Plan &q) { q.w.k.pipe_cap = 65536; });
    try_world([](Plan &q) { q.w.extra.clear(); });
    try_world([](Plan &q) { q.w.low_fds = 7; });
    try_world([](Plan &q) { q.w.sigpipe = 0; });
    try_world([](Plan &q) { q.w.sa_flags = false; });
    try_world([](Plan &q) { q.w.mask = 0; q.w.ignored.clear(); q.w.handled.clear(); });
    try_world([](Plan &q) { q.w.cwd_depth = 1; q.w.cwd_comp = 1; });
    try_world([](Plan &q) { q.w.parent_env = { "PATH=/bin" }; });
    for (size_t s = 0; s < best.starts.size(); s++) {
      try_world([s](Plan &q) { q.starts[s].args.clear(); });
      try_world([s](Plan &q) { q.starts[s].env_extra.clear(); q.starts[s].env_null = true; });
      try_world([s](Plan &q) { q.starts[s].deadline = 0; });
      try_world([s](Plan &q) { q.starts[s].nonblocking = false; });
      try_world([s](Plan &q) { q.starts[s].wd = 0; });
      try_world([s](Plan &q) { q.starts[s].input_size = -1; });
    }
  }
  // freeze the schedule of the minimised plan, then try the simplest schedules (not for crashes: the run must stay out of this process)
  if (cls != "crash") {
    RunResult rr;
    CaseResult r = run_case(cfg, best, &rr);
    (void) r;
    Plan frozen = best;
    frozen.use_sched = true;
    frozen.sched = rr.sched;
    if (fails(frozen)) {
      best = frozen;
      Plan zero = best;
      for (auto &x : zero.sched) x = 0;
      if (fails(zero)) { zero.sched.clear(); best = zero; }
      else {
        // zero the tail in halves
        for (size_t keep = best.sched.size() / 2; keep > 0; keep /= 2) {
          Plan cand = best;
          for (size_t i = keep; i < cand.sched.size(); i++) cand.sched[i] = 0;
          if (fails(cand)) { cand.sched.resize(keep); best = cand; } else break;
        }
      }
    }
  }
  if (runs_used) *runs_used = runs;
  return best;
}

std::vector<KnownFinding> load_known(const std::string &path) {
  std::vector<KnownFinding> out;
  FILE *f = fopen(path.c_str(), "r");
  if (!f) return out;
  char *line = nullptr;
  size_t cap = 0;
  while (getline(&line, &cap, f) > 0) {
    Json j;
    if (!Json::parse(line, j) || j.t != Json::OBJ) continue;
    KnownFinding k;
    k.status = j.str("status"); k.property = j.str("property"); k.signature = j.str("signature"); k.what = j.str("what"); k.commit = j.str("commit");
    out.push_back(k);
  }
  free(line);
  fclose(f);
  return out;
}

const KnownFinding *match_known(const std::vector<KnownFinding> &k, const std::string &prop, const std::string &sig) {
  for (auto &e : k)
    if (e.status == "known" && e.property == prop && fnmatch(e.signature.c_str(), sig.c_str(), 0) == 0) return &e;
  return nullptr;
}
