// Op interpreter with the per-op reference models (C01 C02 C06 C07 C14 C15 C17 ...).
#include "runner_state.hpp"

#include <climits>
#include <cstdio>
#include <cstdlib>
#include <fcntl.h>
#include <signal.h>

static bool never_ready(Thread *) { return false; }

// true when no other thread has an unfinished op on the handle that thread `t` is about to destroy
static bool join_ready(Thread *t) {
  Runner *r = G;
  size_t me = r->tpos[(size_t) t->tid];
  int h = r->plan.ops[me].h;
  for (size_t t2 = 0; t2 < r->tpos.size(); t2++) {
    if ((int) t2 == t->tid) continue;
    for (size_t i = r->tpos[t2]; i < r->plan.ops.size(); i++)
      if (r->plan.ops[i].thread == (int) t2 && r->plan.ops[i].h == h) return false;
  }
  return true;
}

static const char *st_name(int st) {
  switch (st) {
    case LS_NONE: return "null";
    case LS_NEW: return "not-started";
    case LS_RUNNING: return "running";
    case LS_EXITED: return "exited";
    case LS_INCHILD: return "in-child";
  }
  return "?";
}

static std::string errname(long long r) {
  if (r >= 0) return std::to_string(r);
  switch ((int) -r) {
    case EINVAL: return "EINVAL";
    case EPIPE: return "EPIPE";
    case ETIMEDOUT: return "ETIMEDOUT";
    case ENOMEM: return "ENOMEM";
    case EAGAIN: return "EWOULDBLOCK";
    case EINTR: return "EINTR";
    case EBADF: return "EBADF";
    case ENOENT: return "ENOENT";
    case EACCES: return "EACCES";
    case EMFILE: return "EMFILE";
    case ECHILD: return "ECHILD";
    case ESRCH: return "ESRCH";
    case EPERM: return "EPERM";
    default: return "E" + std::to_string(-r);
  }
}

// Was an error injected into this op that may legitimately surface as `r`?
static bool injected_in_op(int idx, long long r) {
  for (auto &f : K->faults)
    if (f.fired && f.op == idx) {
      if (r == 0 && false) return true;
      int e = f.err == F_NULL ? ENOMEM : f.err;
      if (e > 0 && r == -e) return true;
    }
  return false;
}
static bool any_fault_fired(int idx) {
  for (auto &f : K->faults) if (f.fired && f.op == idx) return true;
  return false;
}
// ... other than an interrupted poll: an interruption (after whatever delay) neither sends nor suppresses anything and
// consumes only time the caller spent parked, so every timing rule of a sequence stays in force whether the library gives
// up with EINTR or carries on with the time that is left
static bool hard_fault_fired(int idx) {
  for (auto &f : K->faults) if (f.fired && f.op == idx && !(f.kind == K_poll && f.err == EINTR)) return true;
  return false;
}

// multi-thread plans: life-cycle ops (new/start/destroy) issued earlier in the plan by another thread on the
// same handle must have completed before this op may touch the handle
static bool lifecycle_ready(Thread *t) {
  Runner *r = G;
  size_t me = r->tpos[(size_t) t->tid];
  int h = r->plan.ops[me].h;
  for (size_t j = 0; j < me; j++) {
    const Op &o = r->plan.ops[j];
    if (o.h != h || o.thread == t->tid) continue;
    if ((o.kind == OP_NEW || o.kind == OP_START || o.kind == OP_DESTROY) && !r->out.res[j].ran && !r->skipped[j]) return false;
  }
  return true;
}

void Runner::exec_op(Thread *t, int idx) {
  const Op &op = plan.ops[(size_t) idx];
  OpRes &res = out.res[(size_t) idx];
  if (tpos.size() > 1 && op.h >= 0 && !lifecycle_ready(t)) {
    t->op = idx;
    K->park(t, lifecycle_ready, -1, K_sleep);
    t->op = -1;
  }
  struct Skip { Runner *r; int i; OpRes &res; ~Skip() { if (!res.ran) r->skipped[(size_t) i] = true; } } skip_guard{ this, idx, res };
  // happens-before edges implied by the plan: life-cycle ops precede later ops of other threads; a thread's last op on a
  // handle precedes its destruction.  Reader/writer ops running concurrently get no edge.
  static char tok_life[64], tok_join[64];
  struct Hb {
    Runner *r; Thread *t; int idx; const Op &op;
    ~Hb() {
      if (r->tpos.size() < 2 || op.h < 0 || op.h >= 64) return;
      if (op.kind == OP_NEW || op.kind == OP_START || op.kind == OP_DESTROY) coro_tsan_release(&tok_life[op.h]);
      bool last = true;
      for (size_t i = (size_t) idx + 1; i < r->plan.ops.size(); i++)
        if (r->plan.ops[i].thread == op.thread && r->plan.ops[i].h == op.h) { last = false; break; }
      if (last) coro_tsan_release(&tok_join[op.h]);
    }
  } hb_guard{ this, t, idx, op };
  if (tpos.size() > 1 && op.h >= 0 && op.h < 64) {
    coro_tsan_acquire(&tok_life[op.h]);
    if (op.kind == OP_DESTROY) { /* acquired after the join below */ }
  }
  HState *h = op.h >= 0 && (size_t) op.h < hs.size() ? &hs[(size_t) op.h] : nullptr;
  void *hp = h ? h->p : nullptr;
  OpCtx &cx = octx[(size_t) t->tid];
  cx = OpCtx();
  cx.t0_ns = K->now_ns;
  int st0 = h ? h->st : LS_NONE;
  int expect_uid = h && h->st == LS_RUNNING ? h->uid : -1;
  res.t0_ns = K->now_ns;
  ShimRet r;
  auto finish = [&]() {
    res.raw = r;
    res.ret = shim_norm(r);
    res.t1_ns = K->now_ns;
    res.parked = t->op_parked;
    res.parked_ns = t->op_parked_ns;
    res.calls = t->op_calls;
    res.ran = true;
    t->op = -1;
  };
  auto c14 = [&](const std::string &cls, const std::string &detail) {
    viol("C14", cls, fmt("op=%s/state=%s", op_name[op.kind], st_name(st0)), detail, idx);
  };
  auto expect_einval = [&](long long got) {
    if (got != C.EINVAL_)
      c14("misuse-not-rejected", fmt("%s on a %s handle returned %s, expected the invalid-argument error", op_name[op.kind], st_name(st0),
                                     errname(got).c_str()));
  };
  if (h && h->busy > 0 && op.kind != OP_READ && op.kind != OP_WRITE) probe(P_multi_thread_overlap);

  switch (op.kind) {
    case OP_NEW: {
      if (!h || h->st != LS_NONE) return;
      api_begin(t, idx, op.h, -1);
      void *p = api->new_();
      api_end(t);
      finish();
      res.ret = p ? 1 : 0;
      if (!p) {
        if (!any_fault_fired(idx)) c14("new-failed", "reproc_new returned NULL without an allocation failure");
        return;
      }
      *h = HState();
      h->p = p;
      h->st = LS_NEW;
      tuple(OP_NEW, 0, 0);
      return;
    }
    case OP_START: op_start(t, idx, op, res); return;
    case OP_RUN:
    case OP_DRAIN: op_drain_run(t, idx, op, res); return;
    case OP_POLL: op_poll(t, idx, op, res); return;
    case OP_PID: {
      api_begin(t, idx, op.h, expect_uid);
      r = api->pid(hp);
      api_end(t);
      finish();
      if (st0 == LS_RUNNING || st0 == LS_EXITED) {
        if (res.ret != h->pid) {
          viol("C04", "pid-mismatch", "", fmt("reproc_pid returned %lld, the child forked for this handle has pid %d", res.ret, h->pid), idx);
        }
      } else {
        expect_einval(res.ret);
        if (st0 == LS_NEW && h->start_failed_once && res.ret != C.EINVAL_)
          viol("C04", "pid-after-failed-start", "", fmt("start failed on this handle but reproc_pid returns %lld instead of the invalid-argument error", res.ret), idx);
      }
      tuple(OP_PID, (uint64_t) st0, (uint64_t) (res.ret < 0));
      return;
    }
    case OP_WRITE: {
      int64_t n_override = -1;
      auto once = [&]() {
      size_t n = (size_t) (n_override >= 0 ? n_override : op.a);
      std::vector<uint8_t> buf(n ? n : 1);
      uint64_t base = h ? h->wr_off : 0;
      for (size_t i = 0; i < n; i++) buf[i] = K->byte_at(1000 + op.h, 0, base + i);
      if (h) { h->busy++; h->wr_inflight = n; }
      api_begin(t, idx, op.h, expect_uid);
      r = api->write(hp, op.b ? nullptr : buf.data(), n);
      api_end(t);
      if (h) { h->busy--; h->wr_inflight = 0; }
      finish();
      long long v = res.ret;
      tuple(OP_WRITE, (uint64_t) st0, (uint64_t) (v < 0 ? -v : 0), (uint64_t) (h && h->open_[0]));
      if (st0 == LS_NONE || st0 == LS_INCHILD) { expect_einval(v); return; }
      if (op.b) {
        if (n == 0 ? v != 0 : v != C.EINVAL_) c14("null-buffer", fmt("write(NULL, %zu) returned %s", n, errname(v).c_str()));
        return;
      }
      if (st0 == LS_NEW) {
        if (v != C.EPIPE_ && v != C.EINVAL_) c14("misuse-not-rejected", fmt("write before start returned %s", errname(v).c_str()));
        return;
      }
      if (!h->open_[0]) {
        if (v != C.EPIPE_) c14("closed-stream-not-reported", fmt("write on a closed or non-piped stdin returned %s", errname(v).c_str()));
        return;
      }
      Pipe *pp = pipe_by_id(h->pipe_id[0]);
      if (v >= 0) {
        if ((size_t) v > n) { viol("C02", "write-count-too-large", "", fmt("write(%zu) returned %lld", n, v), idx); return; }
        if (v == 0 && n > 0 && !any_fault_fired(idx)) viol("C17", "write-returned-zero", "", fmt("write(%zu) returned 0", n), idx);
        if ((size_t) v < n) probe(P_partial_write);
        h->wr_off += (uint64_t) v;
        res.bytes = (uint64_t) v;
      } else if (v == C.EPIPE_) {
        if (pp && pp->readers > 0 && !injected_in_op(idx, v))
          viol("C02", "closed-error-on-open-stdin", "", "write returned the closed-pipe error although the child still has stdin open", idx);
        h->open_[0] = false;
      } else if (v == C.EWOULDBLOCK_) {
        if (!h->nonblocking && !injected_in_op(idx, v)) viol("C17", "wouldblock-in-blocking-mode", "op=write", "blocking write returned the would-block error", idx);
        else probe(P_wouldblock_write);
        if (h->nonblocking && pp && pp->space() >= (n < 4096 ? n : 1) && pp->readers > 0 && !injected_in_op(idx, v) && pp->space() >= n)
          viol("C17", "wouldblock-with-room", "", fmt("nonblocking write(%zu) returned would-block with %zu bytes of room", n, pp->space()), idx);
      } else if (!injected_in_op(idx, v)) {
        c14("unexpected-error", fmt("write returned %s without any injected failure", errname(v).c_str()));
      }
      return;
          };
      // c: repeat until `a` bytes are accepted (chunks of d bytes, 0 = all); would-block -> sleep 1 ms and retry
      if (!op.c) { once(); return; }
      {
        uint64_t total = (uint64_t) op.a, done = 0;
        int stalls = 0;
        for (int iter = 0; iter < 20000 && done < total && stalls < 300; iter++) {
          uint64_t chunk = op.d > 0 && (uint64_t) op.d < total - done ? (uint64_t) op.d : total - done;
          n_override = (int64_t) chunk;
          once();
          long long v = res.ret;
          if (v > 0) { done += (uint64_t) v; stalls = 0; continue; }
          if (v == C.EWOULDBLOCK_ || v == -EINTR) { stalls++; t->op = idx; K->park(t, never_ready, K->now_ns + 1000000, K_sleep); t->op = -1; continue; }
          break;
        }
        res.bytes = done;
      }
      return;
    }
    case OP_READ: {
      std::vector<uint8_t> rbuf;
      auto once = [&]() {
      int stream = (int) op.a;
      size_t n = (size_t) op.b;
      if (rbuf.size() < (n ? n : 1)) rbuf.resize(n ? n : 1);
      std::vector<uint8_t> &buf = rbuf;
      if (h) h->busy++;
      api_begin(t, idx, op.h, expect_uid);
      r = api->read(hp, stream, buf.data(), n);
      api_end(t);
      if (h) h->busy--;
      finish();
      long long v = res.ret;
      bool stream_ok = stream == C.STREAM_OUT || stream == C.STREAM_ERR;
      int s = stream == C.STREAM_OUT ? 1 : 2;
      tuple(OP_READ, (uint64_t) st0, (uint64_t) (v < 0 ? -v : (v > 0)), (uint64_t) (h && stream_ok && h->open_[s]) * 2 + (n == 0));
      if (st0 == LS_NONE || st0 == LS_INCHILD || !stream_ok) { expect_einval(v); return; }
      if (st0 == LS_NEW) {
        if (v != C.EPIPE_ && v != C.EINVAL_) c14("misuse-not-rejected", fmt("read before start returned %s", errname(v).c_str()));
        return;
      }
      if (!h->open_[s]) {
        if (v != C.EPIPE_) c14("closed-stream-not-reported", fmt("read on a closed or non-piped stream returned %s", errname(v).c_str()));
        return;
      }
      Pipe *pp = pipe_by_id(h->pipe_id[s]);
      if (v > 0) {
        if ((size_t) v > n) { viol("C02", "read-count-too-large", "", fmt("read(%zu) returned %lld", n, v), idx); return; }
        for (long long i = 0; i < v; i++) {
          if (buf[(size_t) i] != K->byte_at(h->uid, s, h->rd_off[s] + (uint64_t) i)) {
            viol("C02", "output-corrupted", fmt("stream=%d", s),
                 fmt("byte %llu of stream %d differs from what the child wrote at that offset (loss, duplication or reordering)",
                     (unsigned long long) (h->rd_off[s] + (uint64_t) i), s), idx);
            break;
          }
        }
        h->rd_off[s] += (uint64_t) v;
        res.bytes = (uint64_t) v;
      } else if (v == 0) {
        if (n != 0) c14("read-returned-zero", fmt("read(%zu) returned 0", n));
      } else if (v == C.EPIPE_) {
        { Proc *cc = proc_of(*h); if (cc && cc->st == Proc::RUNNING) probe(P_eof_before_exit); }
        if (pp && (pp->len > 0 || pp->writers > 0) && !injected_in_op(idx, v))
          viol("C02", "closed-error-before-end-of-stream", fmt("size=%s", n == 0 ? "0" : "n"),
               fmt("read(size=%zu) returned the closed-stream error with %zu bytes pending and %d writer(s)", n, pp->len, pp->writers), idx);
        h->open_[s] = false;
      } else if (v == C.EWOULDBLOCK_) {
        if (!h->nonblocking && !injected_in_op(idx, v)) viol("C17", "wouldblock-in-blocking-mode", "op=read", "blocking read returned the would-block error", idx);
        else probe(P_wouldblock_read);
        if (h->nonblocking && pp && (pp->len > 0 || pp->writers == 0) && !injected_in_op(idx, v))
          viol("C17", "wouldblock-with-data", "", "nonblocking read returned would-block although data or end-of-file was available", idx);
        // ... and at the end of the stream that is the closed-stream error withheld (a reader looping on would-block never ends)
        if (h->nonblocking && pp && pp->len == 0 && pp->writers == 0 && !injected_in_op(idx, v))
          viol("C02", "end-of-stream-not-reported", "", "read returned would-block on a stream whose writers are all gone and whose data has been delivered", idx);
      } else if (!injected_in_op(idx, v)) {
        c14("unexpected-error", fmt("read returned %s without any injected failure", errname(v).c_str()));
      }
      return;
          };
      // c: repeat until the closed-stream error (or another error); would-block -> sleep 1 ms and retry
      if (!op.c) { once(); return; }
      {
        uint64_t total = 0;
        int maxit = op.d > 0 ? (int) op.d : 20000;
        int stalls = 0;
        for (int iter = 0; iter < maxit && stalls < 300; iter++) {
          once();
          long long v = res.ret;
          if (v > 0) { total += (uint64_t) v; stalls = 0; continue; }
          if (v == 0 && op.b == 0) break;
          if (v == C.EWOULDBLOCK_ || v == -EINTR) { stalls++; t->op = idx; K->park(t, never_ready, K->now_ns + 1000000, K_sleep); t->op = -1; continue; }
          break;
        }
        res.bytes = total;
      }
      return;
    }
    case OP_CLOSE: {
      int stream = (int) op.a;
      api_begin(t, idx, op.h, expect_uid);
      r = api->close(hp, stream);
      api_end(t);
      finish();
      long long v = res.ret;
      bool ok_stream = stream == C.STREAM_IN || stream == C.STREAM_OUT || stream == C.STREAM_ERR;
      tuple(OP_CLOSE, (uint64_t) st0, (uint64_t) (v < 0), (uint64_t) stream);
      if (st0 == LS_NONE || st0 == LS_INCHILD || !ok_stream) { expect_einval(v); return; }
      if (v != 0) c14("close-failed", fmt("close(stream %d) returned %s", stream, errname(v).c_str()));
      int s = stream == C.STREAM_IN ? 0 : stream == C.STREAM_OUT ? 1 : 2;
      h->open_[s] = false;
      if (s == 0 && st0 != LS_NEW) h->in_closed = true;
      return;
    }
    case OP_WAIT:
    case OP_STOP: {
      // multi-thread plans: only reading and writing are documented as safe to overlap; everything else joins first
      if (tpos.size() > 1 && op.h >= 0 && !join_ready(t)) {
        t->op = idx;
        K->park(t, join_ready, -1, K_sleep);
        t->op = -1;
        res.t0_ns = K->now_ns;
        st0 = h ? h->st : LS_NONE;
        hp = h ? h->p : nullptr;
        expect_uid = h && h->st == LS_RUNNING ? h->uid : -1;
      }
      if (tpos.size() > 1 && op.h >= 0 && op.h < 64) coro_tsan_acquire(&tok_join[op.h]);
      int stop[6] = { (int) op.a, (int) op.b, (int) op.c, (int) op.d, (int) op.e, (int) op.f };
      api_begin(t, idx, op.h, expect_uid);
      r = op.kind == OP_WAIT ? api->wait(hp, (int) op.a) : api->stop(hp, stop);
      api_end(t);
      finish();
      if (st0 == LS_NONE || st0 == LS_NEW || st0 == LS_INCHILD) { expect_einval(res.ret); return; }
      after_wait_like(t, idx, op, res, *h, op.kind == OP_STOP);
      return;
    }
    case OP_TERMINATE:
    case OP_KILL: {
      api_begin(t, idx, op.h, expect_uid);
      r = op.kind == OP_TERMINATE ? api->terminate(hp) : api->kill(hp);
      api_end(t);
      finish();
      long long v = res.ret;
      tuple((uint64_t) op.kind, (uint64_t) st0, (uint64_t) (v < 0));
      if (st0 == LS_NONE || st0 == LS_NEW || st0 == LS_INCHILD) { expect_einval(v); return; }
      if (st0 == LS_EXITED) {
        if (v != 0) viol("C06", "signal-after-exit-failed", "", fmt("%s on an exited handle returned %s", op_name[op.kind], errname(v).c_str()), idx);
        if (K->kind_calls[K_kill] && res.calls > 0) { /* a kill after exit is reported by on_kill */ }
        return;
      }
      if (v != 0 && !injected_in_op(idx, v)) c14("unexpected-error", fmt("%s returned %s", op_name[op.kind], errname(v).c_str()));
      return;
    }
    case OP_DESTROY: {
      // multi-thread plans: the README forbids destroying a handle other threads still use; join them first
      if (tpos.size() > 1 && op.h >= 0 && !join_ready(t)) {
        t->op = idx;
        K->park(t, join_ready, -1, K_sleep);
        t->op = -1;
      }
      if (tpos.size() > 1 && op.h >= 0 && op.h < 64) coro_tsan_acquire(&tok_join[op.h]);
      res.t0_ns = K->now_ns;
      st0 = h ? h->st : LS_NONE;
      hp = h ? h->p : nullptr;
      expect_uid = h && h->st == LS_RUNNING ? h->uid : -1;
      Proc *c = h ? proc_of(*h) : nullptr;
      switch (st0) {
        case LS_NONE: probe(P_destroy_null); break;
        case LS_NEW: probe(h->start_failed_once ? P_destroy_failed_start : P_destroy_not_started); break;
        case LS_RUNNING: probe(c && c->st == Proc::RUNNING ? P_destroy_running : P_destroy_exited_unreaped); break;
        case LS_EXITED: probe(P_destroy_reaped); break;
        default: break;
      }
      int64_t t0 = K->now_ns;
      size_t nsig0 = c ? c->sigs.size() : 0;
      api_begin(t, idx, op.h, expect_uid);
      void *p = api->destroy(hp);
      api_end(t);
      finish();
      res.ret = p ? 1 : 0;
      tuple(OP_DESTROY, (uint64_t) st0, (uint64_t) (c ? c->st : 9));
      if (p) viol("C15", "destroy-returned-non-null", fmt("state=%s", st_name(st0)), "reproc_destroy did not return NULL", idx);
      if (st0 == LS_NONE) {
        if (res.calls) viol("C15", "destroy-null-did-something", "", fmt("destroy(NULL) made %u library calls", res.calls), idx);
        return;
      }
      if (st0 == LS_RUNNING && c) {
        int parsed[6];
        memcpy(parsed, h->stop, sizeof parsed);
        bool all_noop = parsed[0] == C.S_NOOP && parsed[2] == C.S_NOOP && parsed[4] == C.S_NOOP;
        OpRes tmp = res;
        tmp.ret = LLONG_MIN;  // return value of the inner stop is not observable
        (void) nsig0;
        check_stop_model(t, idx, h->stop, tmp, *h, st0, t0, "C15");
        if (all_noop) {
          if (c->st != Proc::REAPED)
            viol("C15", "default-policy-abandoned-child", fmt("child=%s", c->st == Proc::RUNNING ? "running" : "unreaped") + (any_fault_fired(idx) ? "/" + fault_tag(idx) : std::string()),
                 "destroy with the default stop policy returned while the child was still running or unreaped", idx);
          for (auto &s : c->sigs) {
            if (s.from_op != idx) continue;
            if (h->dl_lo_ms < 0)
              viol("C15", "signal-without-deadline", "", "destroy with the default policy and no deadline sent a signal", idx);
            else if (ms(s.t_ns) < h->dl_lo_ms)
              viol("C15", "terminate-before-deadline", "", fmt("SIGTERM sent at %lld ms, deadline is %lld ms", (long long) ms(s.t_ns), (long long) h->dl_lo_ms), idx);
            if (s.sig != SIGTERM) viol("C15", "default-policy-wrong-signal", "", fmt("default policy sent signal %d", s.sig), idx);
          }
        }
      }
      // per-handle resource check
      for (size_t fd = 0; fd < K->caller->fds.size(); fd++) {
        FdEnt &e = K->caller->fds[fd];
        if (e.ofd && e.owner == OWN_LIB && e.made_handle == op.h)
          viol("C05", "descriptor-leak", fmt("made-by=%s/at=destroy/%s", e.made_op >= 0 ? op_name[plan.ops[(size_t) e.made_op].kind] : "?", fault_tag(e.made_op).c_str()),
               fmt("descriptor %zu opened for this handle in op %d is still open after destroy", fd, e.made_op), idx);
      }
      if (c && c->st == Proc::ZOMBIE && h->status_known)
        viol("C01", "zombie-after-status", "", "a status was returned for this child but it is still a zombie at destroy", idx);
      check_child_streams((size_t) op.h);
      *h = HState();
      return;
    }
    case OP_STRERROR: {
      api_begin(t, idx, -1, -1);
      const char *s = api->strerror_((int) op.a);
      api_end(t);
      finish();
      res.ret = s ? 1 : 0;
      if (!s) c14("strerror-null", "reproc_strerror returned NULL");
      else if (strlen(s) == 0) c14("strerror-empty", "reproc_strerror returned an empty string");
      return;
    }
    case OP_USERFD: {
      // harness actions on the caller process between API calls: a = 1 raise the soft descriptor limit to b;
      // a = 2 open a user descriptor (null device) with number b, close-on-exec = c
      // (raise only: lowering the limit below descriptors that are already open leaves them outside "up to the limit")
      if (op.a == 1 && (uint64_t) op.b > K->caller->rlim_cur) { if ((uint64_t) op.b > K->caller->rlim_max) K->caller->rlim_max = (uint64_t) op.b; K->caller->rlim_cur = (uint64_t) op.b; }
      if (op.a == 2 && op.b >= 3 && (uint64_t) op.b < K->caller->rlim_cur && !K->fdent(K->caller, (int) op.b)) {
        OFD *o = K->ofd_new(OFD::NUL);
        o->acc = O_RDWR;
        K->fd_install(K->caller, (int) op.b, o, op.c != 0, OWN_USER);
        user_fds.insert((int) op.b);
        user_ofd[(int) op.b] = o->id;
        if ((uint64_t) op.b == K->caller->rlim_cur - 1 && !op.c) probe(P_limit_minus_1_open);
      }
      finish();
      return;
    }
    case OP_SLEEP: {
      t->op = idx;
      K->park(t, never_ready, K->now_ns + op.a * 1000000, K_sleep);
      finish();
      return;
    }
    default: return;
  }
}

// ------------------------------------------------------------------ wait / stop results (C01, C07, C08)
void Runner::after_wait_like(Thread *t, int idx, const Op &op, OpRes &res, HState &h, bool is_stop) {
  long long v = res.ret;
  Proc *c = proc_of(h);
  int st0 = h.st;
  tuple((uint64_t) op.kind, (uint64_t) st0, (uint64_t) (v < 0 ? -v : 0), (uint64_t) (c ? c->st : 9));
  if (st0 == LS_EXITED) {
    bool bad_action = false;
    if (is_stop) {
      int acts[3] = { (int) op.a, (int) op.c, (int) op.e };
      for (int a : acts) {
        if (a == C.S_NOOP) continue;
        bad_action = a < C.S_NOOP || a > C.S_KILL;
        break;
      }
    }
    if (bad_action) { if (v != C.EINVAL_) viol("C07", "bad-action-not-rejected", "state=exited", fmt("stop with an out-of-range action returned %s", errname(v).c_str()), idx); return; }
    probe(P_cached_status);
    if (v != h.status)
      viol("C14", "exited-state-result", fmt("op=%s", op_name[op.kind]), fmt("%s on an exited handle returned %s instead of its status %d", op_name[op.kind], errname(v).c_str(), h.status), idx);
    if (v != h.status)
      viol("C01", "status-not-stable", fmt("op=%s", op_name[op.kind]), fmt("first status was %d, a later %s returned %s", h.status, op_name[op.kind], errname(v).c_str()), idx);
    if (res.calls != 0 || res.t1_ns != res.t0_ns)
      viol("C01", "cached-status-not-immediate", fmt("op=%s", op_name[op.kind]), fmt("%s on an exited handle made %u library calls", op_name[op.kind], res.calls), idx);
    return;
  }
  // running
  if (v >= 0) {
    if (!c || c->st == Proc::RUNNING) {
      viol("C01", "status-while-running", fmt("op=%s/value=%lld", op_name[op.kind], v), fmt("%s returned status %lld while the child is still running", op_name[op.kind], v), idx);
      if (is_stop) check_stop_model(t, idx, nullptr, res, h, st0, res.t0_ns, "C07");
      return;
    }
    int want = expected_status(c);
    if (c->death_by_sig) probe(P_status_signal); else probe(P_status_code);
    if (v != want)
      viol("C01", "wrong-status", fmt("by=%s", c->death_by_sig ? "signal" : "exit"), fmt("child ended with %s %d, %s returned %lld (expected %d)", c->death_by_sig ? "signal" : "code",
                                                                               c->death_by_sig ? c->death_sig : c->death_code, op_name[op.kind], v, want), idx);
    if (c->st != Proc::REAPED)
      viol("C01", "status-without-reap", "", fmt("%s returned a status but the child has not been reaped", op_name[op.kind]), idx);
    h.st = LS_EXITED;
    h.status = (int) v;
    h.status_known = true;
    if (h.open_[1] || h.open_[2]) probe(P_exit_before_eof);
  }
  if (is_stop) {
    int stop[6] = { (int) op.a, (int) op.b, (int) op.c, (int) op.d, (int) op.e, (int) op.f };
    check_stop_model(t, idx, stop, res, h, st0, res.t0_ns, "C07");
    return;
  }
  // plain wait
  int timeout = (int) op.a;
  if (v == C.ETIMEDOUT_) {
    probe(P_poll_timeout);
    int64_t eff_ns;
    if (timeout == C.INFINITE_) {
      viol("C08", "timeout-from-infinite-wait", "", "wait(INFINITE) returned the timeout error", idx);
      return;
    } else if (timeout == C.DEADLINE_) {
      probe(P_wait_deadline);
      if (h.dl_lo_ms < 0) { viol("C08", "timeout-without-deadline", "", "wait(DEADLINE) on a process without deadline returned the timeout error", idx); return; }
      if (ms(res.t1_ns) < h.dl_lo_ms)
        viol("C08", "wait-deadline-early", "", fmt("wait(DEADLINE) timed out at %lld ms, deadline is %lld ms", (long long) ms(res.t1_ns), (long long) h.dl_lo_ms), idx);
      eff_ns = (h.dl_lo_ms - ms(res.t0_ns)) * 1000000;
      if (eff_ns < 0) eff_ns = 0;
    } else {
      if (timeout < 0) { return; }
      eff_ns = (int64_t) timeout * 1000000;
      if (res.t1_ns - res.t0_ns < eff_ns && !any_fault_fired(idx))
        viol("C08", "wait-timeout-early", "", fmt("wait(%d) returned the timeout error after %.3f ms", timeout, (double) (res.t1_ns - res.t0_ns) / 1e6), idx);
    }
    if (c && c->dying_ns >= 0 && c->dying_ns + 1000000 < res.t0_ns && !any_fault_fired(idx)) {
      // the child was dead before the call began: whatever the timeout, the state dictates its status
      viol("C01", "no-status-for-dead-child", "op=wait", "the child had exited before wait was called, yet wait returned the timeout error", idx);
      viol("C14", "wait-ignores-exited-child", "", "the child had exited before wait was called, yet wait returned the timeout error: the handle is stuck in the running state", idx);
    }
    if (c && c->dying_ns >= 0 && c->dying_ns + 1000000 < res.t0_ns + eff_ns && !any_fault_fired(idx))
      viol("C08", "timeout-although-exited", "", fmt("wait timed out although the child had exited %.3f ms after the call began (timeout %.3f ms)",
                                                    (double) (c->dying_ns - res.t0_ns) / 1e6, (double) eff_ns / 1e6), idx);
  } else if (v < 0 && !injected_in_op(idx, v)) {
    viol("C14", "unexpected-error", fmt("op=wait/state=%s", st_name(st0)), fmt("wait returned %s without any injected failure", errname(v).c_str()), idx);
  }
}

// Retrospective reference model of a stop sequence: walks the three steps along the
// recorded ground truth (signals the child received, the instant it died).
void Runner::check_stop_model(Thread *t, int idx, const int stop_in[6], OpRes &res, HState &h, int st0, int64_t t0, const char *prop) {
  (void) t; (void) st0;
  Proc *c = proc_of(h);
  if (!c || !stop_in) return;
  if (c->auto_reaped) return;  // collected by somebody else behind the library's back: what it signals afterwards goes nowhere we record
  int stop[6];
  memcpy(stop, stop_in, sizeof stop);
  bool ret_known = res.ret != LLONG_MIN;
  long long v = res.ret;
  if (stop[0] == C.S_NOOP && stop[2] == C.S_NOOP && stop[4] == C.S_NOOP) {
    stop[0] = C.S_WAIT; stop[1] = C.DEADLINE_;
    stop[2] = C.S_TERMINATE; stop[3] = C.INFINITE_;
  }
  std::vector<SigRec> sent;
  for (auto &s : c->sigs) if (s.from_op == idx) sent.push_back(s);
  std::string triple = fmt("%d,%d,%d", stop[0], stop[2], stop[4]);
  // errors injected into the op end the sequence early with that error
  bool faulted = hard_fault_fired(idx), interrupted = any_fault_fired(idx) && !faulted;
  const int64_t J = (res.t1_ns - t0) - res.parked_ns + 1000000;  // drawn jitter inside the op + 1 ms rounding
  const int64_t X = c->dying_ns;  // -1: alive
  int64_t lo = t0, hi = t0 + J;
  size_t si = 0;
  bool ended = false;
  long long want = 0;  // expected return class: >=0 status, <0 error
  bool want_status = false, ambiguous_end = false;
  int waits_expired = 0;
  for (int i = 0; i < 3 && !ended; i++) {
    int act = stop[2 * i], to = stop[2 * i + 1];
    if (act == C.S_NOOP) continue;
    if (act < C.S_NOOP || act > C.S_KILL) { want = C.EINVAL_; ended = true; break; }
    if (act == C.S_TERMINATE || act == C.S_KILL) {
      int sig = act == C.S_TERMINATE ? SIGTERM : SIGKILL;
      if (si >= sent.size()) {
        if (faulted) return;  // the signalling call itself was made to fail
        if (interrupted && (!ret_known || v == -EINTR)) return;  // gave up at the interrupted wait: nothing further is sent
        viol(prop, "stop-action-skipped", fmt("actions=%s/step=%d", triple.c_str(), i + 1),
             fmt("step %d should send signal %d but no signal was sent", i + 1, sig), idx);
        return;
      }
      if (sent[si].sig != sig) {
        viol(prop, "stop-wrong-signal", fmt("actions=%s/step=%d", triple.c_str(), i + 1), fmt("step %d sent signal %d, expected %d", i + 1, sent[si].sig, sig), idx);
        return;
      }
      if (sent[si].t_ns > hi + 2000000 && !faulted)
        viol(prop, "stop-step-late", fmt("actions=%s/step=%d", triple.c_str(), i + 1),
             fmt("step %d sent its signal at %.3f ms although the previous wait expired at %.3f ms at the latest", i + 1, (double) sent[si].t_ns / 1e6, (double) hi / 1e6), idx);
      if (sent[si].t_ns + 1000000 < lo)
        viol(prop, "stop-signal-too-early", fmt("actions=%s/step=%d", triple.c_str(), i + 1),
             fmt("step %d sent its signal at %.3f ms, the previous wait only expires at %.3f ms", i + 1, (double) sent[si].t_ns / 1e6, (double) lo / 1e6), idx);
      lo = sent[si].t_ns;
      hi = sent[si].t_ns + J;
      si++;
    }
    // the wait of this step
    int64_t T;
    if (to == C.INFINITE_) T = -1;
    else if (to == C.DEADLINE_) {
      if (h.dl_lo_ms < 0) T = -1;
      else { T = (h.dl_lo_ms - ms(lo)) * 1000000; if (T < 0) T = 0; }
    } else if (to < 0) { want = C.EINVAL_; /* negative timeout other than the named ones: poll treats as infinite */ T = -1; }
    else T = (int64_t) to * 1000000;
    if (T < 0) {
      // waits until the child dies; if it never does the run hangs (classified elsewhere)
      if (X < 0) return;
      want_status = true; ended = true; break;
    }
    int64_t blo = lo + T, bhi = hi + T + (to == C.DEADLINE_ ? (h.dl_hi_ms - h.dl_lo_ms) * 1000000 + 1000000 : 0);
    const int64_t tol = 1000000;
    if (X >= 0 && X + tol < blo) { want_status = true; ended = true; break; }
    if (X < 0 || X > bhi + tol) { lo = blo; hi = bhi; waits_expired++; continue; }
    // death within the tolerance window of the boundary: either outcome
    ambiguous_end = true;
    if (si >= sent.size() && (!ret_known || v >= 0)) { want_status = true; ended = true; break; }
    lo = blo; hi = bhi; waits_expired++;
  }
  if (sent.size() >= 2 && sent[0].sig == SIGTERM && sent[1].sig == SIGKILL && c->spec && c->spec->term == ChildSpec::IGNORE) probe(P_term_ignored_then_kill);
  if (si < sent.size()) {
    viol(prop, "stop-extra-signal", fmt("actions=%s", triple.c_str()), fmt("signal %d was sent although the sequence should have ended before that step", sent[si].sig), idx);
    return;
  }
  // the sequence as a whole may not outlast its last wait (an interrupted wait restarted with its full timeout would)
  if (!ended && waits_expired > 0 && !faulted && res.t1_ns > hi + 2000000 + J)
    viol(prop, "stop-step-late", fmt("actions=%s/step=end", triple.c_str()),
         fmt("the sequence returned at %.3f ms although its last wait expired at %.3f ms at the latest", (double) res.t1_ns / 1e6, (double) hi / 1e6), idx);
  if (!ret_known) return;
  if ((faulted || interrupted) && v < 0 && injected_in_op(idx, v)) return;
  if (ended && want_status) {
    if (v < 0 && !(ambiguous_end && v == C.ETIMEDOUT_))
      viol(prop, "stop-missed-exit", fmt("actions=%s", triple.c_str()), fmt("the child exited during the sequence but stop returned %s", errname(v).c_str()), idx);
    return;
  }
  if (ended) {
    if (v != want) viol(prop, "stop-wrong-error", fmt("actions=%s", triple.c_str()), fmt("stop returned %s, expected %s", errname(v).c_str(), errname(want).c_str()), idx);
    return;
  }
  // every wait expired (or there was nothing to wait for)
  if (waits_expired > 0) {
    probe(P_stop_timeout);
    if (waits_expired == 3) probe(P_stop_all_waits_expired);
    if (v != C.ETIMEDOUT_ && !(v >= 0 && c->st == Proc::REAPED))
      viol(prop, "stop-timeout-not-reported", fmt("actions=%s", triple.c_str()),
           fmt("every wait of the sequence expired with the child still running, but stop returned %s instead of the timeout error", errname(v).c_str()), idx);
  }
}
