// Internal state of a plan execution (shared by runner*.cc).
#pragma once
#include <cerrno>
#include <cstring>
#include <set>

#include "runner.hpp"

using namespace simk;

enum LS : int { LS_NONE, LS_NEW, LS_RUNNING, LS_EXITED, LS_INCHILD };

struct HState {
  int st = LS_NONE;
  void *p = nullptr;
  int spec = -1;
  int uid = -1, pid = -1;
  int eff[3] = { 0, 0, 0 };
  bool piped[3] = { false, false, false };
  bool open_[3] = { false, false, false };  // model: parent end believed open
  int pipe_id[4] = { -1, -1, -1, -1 };      // in, out, err, exit pipes (ground truth from the image)
  uint64_t rd_off[3] = { 0, 0, 0 };
  uint64_t wr_off = 0;
  uint64_t wr_inflight = 0;  // size of a write that has not returned yet
  bool in_closed = false;
  int status = -1;
  bool status_known = false;
  int64_t dl_lo_ms = -1, dl_hi_ms = -1;  // absolute deadline window (sim clock, ms), -1 none
  int deadline = 0;
  int stop[6] = { 0, 0, 0, 0, 0, 0 };
  bool nonblocking = false, forkmode = false;
  int start_op = -1;
  bool start_failed_once = false;
  bool merged_err = false;
  int busy = 0;  // ops in flight on this handle (multi-thread plans)
  char tok_life = 0, tok_join = 0;  // addresses used for the happens-before edges a multi-thread plan implies (tsan lane)
};

struct UserFd { int fd; int ofd_id; int peer_fd; };

struct Runner : Hooks {
  const Plan &plan;
  RunOpts opts;
  RunResult out;
  const ShimApi *api = nullptr;
  ShimConsts C;
  std::vector<HState> hs;
  // world
  int cwd_node = 0, work_node = 0, n_prog_bin = -1, n_prog_usr = -1, n_prog_cwd = -1, n_prog_sub = -1, n_prog_work = -1,
      n_prog_worksub = -1, n_existing = -1, n_prog_hidden = -1;
  std::string prog_dotdot;  // "../<name of the parent's cwd>/prog"
  const char *prog_string(int code) {
    static const char *const progs[] = { "/bin/prog", "./prog", "sub/prog", "prog", "/bin/missing", "/bin/noexec", "/bin", "nosuchprog", "" };
    if (code == 9) return prog_dotdot.c_str();
    if (code == 10) return ".hidden/prog";
    return progs[code >= 0 && code < 9 ? code : 0];
  }
  std::vector<char *> env_store;
  std::vector<char *> env_arr;
  char **saved_environ = nullptr;
  uint64_t env_hash0 = 0;
  std::set<int> user_fds;       // descriptors the harness opened in the caller (must survive)
  std::map<int, int> user_ofd;  // fd -> ofd id at creation
  std::vector<void *> user_blocks;
  int path_seq = 0;
  // per-op context for hooks
  struct OpCtx {
    int64_t last_clock_ms = -1;
    int first_fault_err = 0; int first_fault_kind = -1; bool first_fault_child = false;
    int parent_ofd[3] = { -1, -1, -1 };
    std::map<int, int> start_user_ofd;  // stream -> expected ofd id (HANDLE/FILE)
    int path_vnode[3] = { -1, -1, -1 };
    int src_low[3] = { -1, -1, -1 };   // stream -> caller descriptor 0-2 supplied as handle/FILE
    std::vector<int> poll_truth;        // per source ground-truth ready bits at the underlying poll's return
    bool poll_returned = false;
    int polls = 0;
    int64_t limit_ns = 0, first_poll_ns = 0, t0_ns = 0;
  };
  std::vector<OpCtx> octx;  // per thread
  std::vector<bool> skipped;  // ops that returned without running (e.g. new on an occupied slot)
  std::vector<size_t> tpos;  // per thread: index of the op it is executing (or about to)

  explicit Runner(const Plan &p, const RunOpts &o) : plan(p), opts(o) {}

  void viol(const char *prop, const std::string &cls, const std::string &sigrest, const std::string &detail, int op);
  void probe(Probe p) { out.probes[p]++; }
  void tuple(uint64_t a, uint64_t b, uint64_t c, uint64_t d = 0);

  void setup();
  void teardown();
  void thread_main(int tid);
  void exec_op(Thread *t, int idx);
  void final_checks();

  // ops
  void op_start(Thread *t, int idx, const Op &op, OpRes &res);
  void op_poll(Thread *t, int idx, const Op &op, OpRes &res);
  void op_drain_run(Thread *t, int idx, const Op &op, OpRes &res);
  void after_wait_like(Thread *t, int idx, const Op &op, OpRes &res, HState &h, bool is_stop);
  void check_stop_model(Thread *t, int idx, const int stop[6], OpRes &res, HState &h, int st_before, int64_t t0, const char *prop);

  // helpers
  void check_child_streams(size_t hi);
  void on_child_unblock(Thread *t, Proc *c, uint64_t unblocked) override;
  char *str_slot[2] = { nullptr, nullptr };  // the caller's string-sink variables (stdout, stderr), kept across drain/run ops
  Proc *proc_of(const HState &h) { return h.uid >= 0 ? K->procs[(size_t) h.uid] : nullptr; }
  int expected_status(Proc *p) { return p->death_by_sig ? 128 + p->death_sig : p->death_code; }
  bool child_dead(Proc *p) { return p && p->st != Proc::RUNNING; }
  int64_t ms(int64_t ns) { return K->epoch_ms + ns / 1000000; }
  Pipe *pipe_by_id(int id) { return id >= 0 ? K->pipes[(size_t) id] : nullptr; }
  int truth_bits(const HState &h, int interests);
  uint64_t environ_hash();
  int64_t octx_t0(Thread *t) { return octx[(size_t) t->tid].t0_ns ? octx[(size_t) t->tid].t0_ns : K->now_ns; }
  std::string fault_tag(int op);  // "fault=<call>@<side>" of the first fault that fired in that op, or "fault=none"

  // hooks
  void on_exec(Thread *, Proc *, ExecImage *) override;
  void on_fork_child_done(Thread *, Proc *) override;
  void on_kill(Thread *, int pid, int sig, Proc *target) override;
  void on_waitpid(Thread *, int pid, int options, Proc *target) override;
  void on_close(Thread *, Proc *, int fd, const FdEnt *ent) override;
  void on_poll(Thread *, const pollfd_sim *, size_t n, int timeout) override;
  void on_poll_return(Thread *, const pollfd_sim *, size_t n, int cnt) override;
  void on_park(Thread *, Kind) override;
  void on_clock(Thread *, int64_t ms) override;
  void on_libcall(Thread *, Kind, bool child_side) override;
  void on_preempt(Thread *) override;
  void check_image(Thread *t, Proc *c, ExecImage *img);
};

extern Runner *G;
std::string fmt(const char *f, ...) __attribute__((format(printf, 1, 2)));
