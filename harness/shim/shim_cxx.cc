// reproc++ binding shim: compiled against /repo's headers on every check.
#include "../shim.hpp"

#include <cstring>
#include <mutex>
#include <sstream>
#include <map>
#include <string>
#include <string_view>
#include <utility>
#include <vector>

#include <reproc++/drain.hpp>
#include <reproc++/reproc.hpp>
#include <reproc++/run.hpp>
#include <reproc/reproc.h>

static_assert((int) reproc::stop::noop == (int) REPROC_STOP_NOOP && (int) reproc::stop::wait == (int) REPROC_STOP_WAIT &&
                  (int) reproc::stop::terminate == (int) REPROC_STOP_TERMINATE && (int) reproc::stop::kill == (int) REPROC_STOP_KILL,
              "stop enumerators");
static_assert((int) reproc::redirect::default_ == (int) REPROC_REDIRECT_DEFAULT && (int) reproc::redirect::pipe == (int) REPROC_REDIRECT_PIPE &&
                  (int) reproc::redirect::parent == (int) REPROC_REDIRECT_PARENT && (int) reproc::redirect::discard == (int) REPROC_REDIRECT_DISCARD &&
                  (int) reproc::redirect::stdout_ == (int) REPROC_REDIRECT_STDOUT && (int) reproc::redirect::handle_ == (int) REPROC_REDIRECT_HANDLE &&
                  (int) reproc::redirect::file_ == (int) REPROC_REDIRECT_FILE && (int) reproc::redirect::path_ == (int) REPROC_REDIRECT_PATH,
              "redirect enumerators");
static_assert((int) reproc::stream::in == (int) REPROC_STREAM_IN && (int) reproc::stream::out == (int) REPROC_STREAM_OUT &&
                  (int) reproc::stream::err == (int) REPROC_STREAM_ERR, "stream enumerators");
static_assert((int) reproc::event::in == (int) REPROC_EVENT_IN && (int) reproc::event::out == (int) REPROC_EVENT_OUT &&
                  (int) reproc::event::err == (int) REPROC_EVENT_ERR && (int) reproc::event::exit == (int) REPROC_EVENT_EXIT &&
                  (int) reproc::event::deadline == (int) REPROC_EVENT_DEADLINE, "event enumerators");
static_assert((int) reproc::env::extend == (int) REPROC_ENV_EXTEND && (int) reproc::env::empty == (int) REPROC_ENV_EMPTY, "env enumerators");

static ShimConsts x_consts() {
  ShimConsts c = shim_c.consts();
  // the C++ constants must equal the C ones: expose the C++ values so that a mismatch surfaces in every check
  c.SIGKILL_ = reproc::signal::kill;
  c.SIGTERM_ = reproc::signal::terminate;
  c.INFINITE_ = reproc::infinite.count();
  c.DEADLINE_ = reproc::deadline.count();
  return c;
}

static ShimRet R(long long v, const std::error_code &ec, bool flag = false) {
  ShimRet r;
  r.value = v;
  r.ec = ec ? ec.value() : 0;
  r.cat = !ec ? 0 : ec.category() == std::system_category() ? 1 : ec.category() == std::generic_category() ? 2 : 3;
  r.flag = flag;
  return r;
}

static reproc::stop_actions x_stop(const int s[6]) {
  reproc::stop_actions a;
  a.first = { (reproc::stop) s[0], reproc::milliseconds(s[1]) };
  a.second = { (reproc::stop) s[2], reproc::milliseconds(s[3]) };
  a.third = { (reproc::stop) s[4], reproc::milliseconds(s[5]) };
  return a;
}

static reproc::redirect x_redirect(const ShimRedirect &r) {
  reproc::redirect o;
  o.type = (enum reproc::redirect::type) r.type;
  o.handle = r.handle;
  o.file = (FILE *) r.file;
  o.path = r.path;
  return o;
}

// An options object with static storage duration, as programs keep them: constructed during static initialisation (this object
// file is linked before reproc++'s own), never modified, and used as the starting point of every "clone" start.
static reproc::options g_pristine_options;

// Containers of string views whose elements are slices of one buffer (the byte after an element is not NUL).
struct Views {
  std::string buf;
  std::vector<std::pair<size_t, size_t>> at;
  void add(const char *s, size_t n) { at.emplace_back(buf.size(), n); buf.append(s, n); buf.push_back('|'); }
  std::string_view get(size_t i) const { return std::string_view(buf).substr(at[i].first, at[i].second); }
};

static void fill_options(reproc::options &o, const ShimOptions &s, std::vector<std::pair<std::string, std::string>> *pairs, bool *use_pairs) {
  if (s.clone) o = reproc::options::clone(g_pristine_options);
  o.timeout = reproc::milliseconds(77);  // a member without a C counterpart: whatever it holds reaches nothing
  o.working_directory = s.working_directory;
  o.env.behavior = (reproc::env::type) s.env_behavior;
  *use_pairs = false;
  size_t n_env = 0;
  // (not in fork mode: the simulated fork copies the stack and the library's heap, not the C++ heap of this shim)
  if (s.env_extra && s.clone && !s.fork) {
    bool all = true;
    for (const char *const *e = s.env_extra; *e; e++) { n_env++; if (!strchr(*e, '=')) all = false; }
    if (all) {
      for (const char *const *e = s.env_extra; *e; e++) {
        const char *eq = strchr(*e, '=');
        pairs->emplace_back(std::string(*e, eq), std::string(eq + 1));
      }
      *use_pairs = true;
    }
  }
  // the raw array first (a view the options do not own), then - for "clone" starts - a container assigned over it
  o.env.extra = reproc::env(s.env_extra);
  if (*use_pairs) {
    size_t total = 0;
    for (auto &p : *pairs) total += p.first.size() + p.second.size();
    if (total % 2 == 1) {
      Views names, values;
      for (auto &p : *pairs) { names.add(p.first.data(), p.first.size()); values.add(p.second.data(), p.second.size()); }
      std::vector<std::pair<std::string_view, std::string_view>> pv;
      for (size_t i = 0; i < pairs->size(); i++) pv.emplace_back(names.get(i), values.get(i));
      o.env.extra = reproc::env(pv);
    } else {
      o.env.extra = reproc::env(*pairs);
    }
  }
  o.redirect.in = x_redirect(s.in);
  o.redirect.out = x_redirect(s.out);
  o.redirect.err = x_redirect(s.err);
  o.redirect.parent = s.parent;
  o.redirect.discard = s.discard;
  o.redirect.file = (FILE *) s.file;
  o.redirect.path = s.path;
  // an all-noop request is what a default-constructed options object holds already
  { bool any = false; for (int i = 0; i < 6; i++) if (s.stop[i]) any = true; if (any || !s.clone) o.stop = x_stop(s.stop); }
  o.deadline = reproc::milliseconds(s.deadline);
  o.input = reproc::input(s.input, s.input_size);
  o.nonblocking = s.nonblocking;
}

static void *x_new() { return new reproc::process(); }

static ShimRet x_start(void *p, const char *const *argv, const ShimOptions &s) {
  reproc::process *proc = (reproc::process *) p;
  if (!proc) { ShimRet r; r.value = -22; r.ec = 22; r.cat = 1; return r; }  // the C++ API cannot express a null handle
  reproc::options o;
  std::vector<std::pair<std::string, std::string>> pairs;
  bool use_pairs = false;
  fill_options(o, s, &pairs, &use_pairs);
  if (s.fork) {
    auto pr = s.clone ? proc->fork(reproc::options::clone(o)) : proc->fork(o);
    return R(pr.second ? -1 : (pr.first ? 0 : 1), pr.second, pr.first);
  }
  std::error_code ec;
  if (argv && s.clone) {
    std::vector<std::string> args;
    for (const char *const *a = argv; *a; a++) args.emplace_back(*a);
    reproc::arguments conv(argv);  // a view of the caller's array, then a container assigned over it
    size_t total = 0;
    for (auto &a : args) total += a.size();
    if (total % 2 == 0) {
      Views v;
      for (auto &a : args) v.add(a.data(), a.size());
      std::vector<std::string_view> views;
      for (size_t i = 0; i < args.size(); i++) views.push_back(v.get(i));
      conv = reproc::arguments(views);
    } else {
      conv = reproc::arguments(args);
    }
    ec = proc->start(conv, reproc::options::clone(o));
    // the caller's own array is still the caller's
    for (const char *const *a = argv; *a; a++) { volatile char c = **a; (void) c; }
  } else {
    ec = s.clone ? proc->start(reproc::arguments(argv), reproc::options::clone(o)) : proc->start(reproc::arguments(argv), o);
  }
  return R(ec ? -1 : 1, ec);
}

#define PROC(p) reproc::process *proc = (reproc::process *) (p); if (!proc) { ShimRet rr; rr.value = -22; rr.ec = 22; rr.cat = 1; return rr; }

static ShimRet x_pid(void *p) { PROC(p); auto r = proc->pid(); return R(r.first, r.second); }
static ShimRet x_poll(ShimSource *s, size_t n, int timeout) {
  if (!s || n == 0) {
    std::error_code ec = reproc::poll(nullptr, s ? n : 0, reproc::milliseconds(timeout));
    return R(ec ? -1 : 0, ec);
  }
  if (n == 1 && s[0].process && (timeout & 1) == 0) {
    // the member shorthand for a single process
    auto pr = ((reproc::process *) s[0].process)->poll(s[0].interests, reproc::milliseconds(timeout));
    if (!pr.second) s[0].events = pr.first;  // (on an error the C call leaves the caller's field alone; the member has no such field)
    return R(pr.second ? -1 : (pr.first ? 1 : 0), pr.second);
  }
  std::vector<reproc::event::source> v;
  v.reserve(n);
  for (size_t i = 0; i < n; i++) {
    if (s[i].process) v.push_back(reproc::event::source{ std::move(*(reproc::process *) s[i].process), s[i].interests, s[i].events });
    else {
      // a source without a process: what a moved-from reproc::process is (no C handle behind it).  Made from zeroed storage so
      // that no allocation happens here that the C binding would not make as well.
      alignas(reproc::process) char raw[sizeof(reproc::process)];
      memset(raw, 0, sizeof raw);
      v.push_back(reproc::event::source{ std::move(*reinterpret_cast<reproc::process *>(raw)), s[i].interests, s[i].events });
    }
  }
  std::error_code ec = reproc::poll(v.data(), n, reproc::milliseconds(timeout));
  long long cnt = 0;
  for (size_t i = 0; i < n; i++) {
    s[i].events = v[i].events;
    if (v[i].events) cnt++;
    if (s[i].process) *(reproc::process *) s[i].process = std::move(v[i].process);
  }
  return R(ec ? -1 : cnt, ec);
}
static ShimRet x_read(void *p, int stream, uint8_t *buf, size_t n) { PROC(p); auto r = proc->read((reproc::stream) stream, buf, n); return R((long long) (int) r.first, r.second); }
static ShimRet x_write(void *p, const uint8_t *buf, size_t n) { PROC(p); auto r = proc->write(buf, n); return R((long long) (int) r.first, r.second); }
static ShimRet x_close(void *p, int stream) { PROC(p); auto ec = proc->close((reproc::stream) stream); return R(ec ? -1 : 0, ec); }
static ShimRet x_wait(void *p, int t) { PROC(p); auto r = proc->wait(reproc::milliseconds(t)); return R(r.first, r.second); }
static ShimRet x_terminate(void *p) { PROC(p); auto ec = proc->terminate(); return R(ec ? -1 : 0, ec); }
static ShimRet x_kill(void *p) { PROC(p); auto ec = proc->kill(); return R(ec ? -1 : 0, ec); }
static ShimRet x_stopf(void *p, const int s[6]) { PROC(p); auto r = proc->stop(x_stop(s)); return R(r.first, r.second); }
static void *x_destroy(void *p) { delete (reproc::process *) p; return nullptr; }
static const char *x_strerror(int e) { return reproc_strerror(e); }

struct XSink {
  ShimSinkFn fn; void *ctx; int which;
  std::error_code operator()(reproc::stream stream, const uint8_t *buf, size_t size) const {
    int rv = fn(ctx, which, (int) stream, buf, size);
    if (rv == 0) return {};
    return std::error_code(rv < 0 ? -rv : rv, std::system_category());
  }
};

static char *to_cstr(const std::string &s) { char *p = new char[s.size() + 1]; memcpy(p, s.c_str(), s.size() + 1); return p; }

template <class F> static ShimRet with_sinks(int ok, int ek, ShimSinkFn fn, void *ctx, char **os, char **es, F &&call) {
  std::string so, se;
  std::ostringstream oso, ose;
  std::mutex mu;
  if (os && *os) { so = *os; oso << *os; free(*os); *os = nullptr; }
  if (es && *es) { se = *es; ose << *es; free(*es); *es = nullptr; }
  XSink co{ fn, ctx, 0 }, ce{ fn, ctx, 1 };
  ShimRet r;
  auto second = [&](auto &&outsink) {
    switch (ek) {
      case 1: { reproc::sink::string s(se); r = call(outsink, s); break; }
      case 3: { reproc::sink::ostream s(ose); r = call(outsink, s); break; }
      case 4: { reproc::sink::thread_safe::string s(se, mu); r = call(outsink, s); break; }
      case 2: case 5: { r = call(outsink, reproc::sink::null); break; }
      default: { r = call(outsink, ce); break; }
    }
  };
  switch (ok) {
    case 1: { reproc::sink::string s(so); second(s); break; }
    case 3: { reproc::sink::ostream s(oso); second(s); break; }
    case 4: { reproc::sink::thread_safe::string s(so, mu); second(s); break; }
    case 2: case 5: { second(reproc::sink::null); break; }
    default: { second(co); break; }
  }
  if (ok == 3) so = oso.str();
  if (ek == 3) se = ose.str();
  if (os && (ok == 1 || ok == 3 || ok == 4)) *os = to_cstr(so);
  if (es && (ek == 1 || ek == 3 || ek == 4)) *es = to_cstr(se);
  return r;
}

static ShimRet x_drain(void *p, int ok, int ek, ShimSinkFn fn, void *ctx, char **os, char **es) {
  PROC(p);
  if (ok == 6 || ek == 6) { ShimRet rr; rr.value = -22; rr.ec = 22; rr.cat = 1; return rr; }
  return with_sinks(ok, ek, fn, ctx, os, es, [&](auto &&o, auto &&e) {
    std::error_code ec = reproc::drain(*proc, o, e);
    return R(ec ? -1 : 0, ec);
  });
}

static ShimRet x_run(const char *const *argv, const ShimOptions &s, int mode, int ok, int ek, ShimSinkFn fn, void *ctx, char **os, char **es) {
  reproc::options o;
  std::vector<std::pair<std::string, std::string>> pairs;
  bool use_pairs = false;
  fill_options(o, s, &pairs, &use_pairs);
  if (mode == 0) {
    auto r = reproc::run(reproc::arguments(argv), o);
    return R(r.first, r.second);
  }
  return with_sinks(ok, ek, fn, ctx, os, es, [&](auto &&so, auto &&se) {
    auto r = reproc::run(reproc::arguments(argv), o, so, se);
    return R(r.first, r.second);
  });
}
static void x_free(void *p) { delete[] (char *) p; }

const ShimApi shim_cxx = { "c++", x_consts, x_new, x_start, x_pid, x_poll, x_read, x_write, x_close, x_wait, x_terminate,
                           x_kill, x_stopf, x_destroy, x_strerror, x_drain, x_run, x_free };
