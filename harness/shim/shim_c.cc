// C binding shim: compiled against /repo's headers on every check.
#include "../shim.hpp"

#include <reproc/drain.h>
#include <reproc/reproc.h>
#include <reproc/run.h>

static ShimConsts c_consts() {
  ShimConsts c;
  c.EINVAL_ = REPROC_EINVAL; c.EPIPE_ = REPROC_EPIPE; c.ETIMEDOUT_ = REPROC_ETIMEDOUT; c.ENOMEM_ = REPROC_ENOMEM;
  c.EWOULDBLOCK_ = REPROC_EWOULDBLOCK; c.SIGKILL_ = REPROC_SIGKILL; c.SIGTERM_ = REPROC_SIGTERM;
  c.INFINITE_ = REPROC_INFINITE; c.DEADLINE_ = REPROC_DEADLINE;
  c.STREAM_IN = REPROC_STREAM_IN; c.STREAM_OUT = REPROC_STREAM_OUT; c.STREAM_ERR = REPROC_STREAM_ERR;
  c.R_DEFAULT = REPROC_REDIRECT_DEFAULT; c.R_PIPE = REPROC_REDIRECT_PIPE; c.R_PARENT = REPROC_REDIRECT_PARENT;
  c.R_DISCARD = REPROC_REDIRECT_DISCARD; c.R_STDOUT = REPROC_REDIRECT_STDOUT; c.R_HANDLE = REPROC_REDIRECT_HANDLE;
  c.R_FILE = REPROC_REDIRECT_FILE; c.R_PATH = REPROC_REDIRECT_PATH;
  c.S_NOOP = REPROC_STOP_NOOP; c.S_WAIT = REPROC_STOP_WAIT; c.S_TERMINATE = REPROC_STOP_TERMINATE; c.S_KILL = REPROC_STOP_KILL;
  c.E_IN = REPROC_EVENT_IN; c.E_OUT = REPROC_EVENT_OUT; c.E_ERR = REPROC_EVENT_ERR; c.E_EXIT = REPROC_EVENT_EXIT;
  c.E_DEADLINE = REPROC_EVENT_DEADLINE;
  c.ENV_EXTEND = REPROC_ENV_EXTEND; c.ENV_EMPTY = REPROC_ENV_EMPTY;
  return c;
}

static reproc_redirect c_redirect(const ShimRedirect &r) {
  reproc_redirect o;
  o.type = (REPROC_REDIRECT) r.type;
  o.handle = r.handle;
  o.file = (FILE *) r.file;
  o.path = r.path;
  return o;
}

static reproc_stop_actions c_stop(const int s[6]) {
  reproc_stop_actions a;
  a.first.action = (REPROC_STOP) s[0]; a.first.timeout = s[1];
  a.second.action = (REPROC_STOP) s[2]; a.second.timeout = s[3];
  a.third.action = (REPROC_STOP) s[4]; a.third.timeout = s[5];
  return a;
}

static reproc_options c_options(const ShimOptions &s) {
  reproc_options o = {};
  o.working_directory = s.working_directory;
  o.env.behavior = (REPROC_ENV) s.env_behavior;
  o.env.extra = s.env_extra;
  o.redirect.in = c_redirect(s.in);
  o.redirect.out = c_redirect(s.out);
  o.redirect.err = c_redirect(s.err);
  o.redirect.parent = s.parent;
  o.redirect.discard = s.discard;
  o.redirect.file = (FILE *) s.file;
  o.redirect.path = s.path;
  o.stop = c_stop(s.stop);
  o.deadline = s.deadline;
  o.input.data = s.input;
  o.input.size = s.input_size;
  o.fork = s.fork;
  o.nonblocking = s.nonblocking;
  return o;
}

static ShimRet R(long long v) { ShimRet r; r.value = v; return r; }

static void *c_new() { return reproc_new(); }
static ShimRet c_start(void *p, const char *const *argv, const ShimOptions &o) { return R(reproc_start((reproc_t *) p, argv, c_options(o))); }
static ShimRet c_pid(void *p) { return R(reproc_pid((reproc_t *) p)); }
static ShimRet c_poll(ShimSource *s, size_t n, int timeout) {
  if (!s) return R(reproc_poll(nullptr, n, timeout));
  reproc_event_source *v = new reproc_event_source[n ? n : 1];
  for (size_t i = 0; i < n; i++) { v[i].process = (reproc_t *) s[i].process; v[i].interests = s[i].interests; v[i].events = s[i].events; }
  int r = reproc_poll(v, n, timeout);
  for (size_t i = 0; i < n; i++) s[i].events = v[i].events;
  delete[] v;
  return R(r);
}
static ShimRet c_read(void *p, int stream, uint8_t *buf, size_t n) { return R(reproc_read((reproc_t *) p, (REPROC_STREAM) stream, buf, n)); }
static ShimRet c_write(void *p, const uint8_t *buf, size_t n) { return R(reproc_write((reproc_t *) p, buf, n)); }
static ShimRet c_close(void *p, int stream) { return R(reproc_close((reproc_t *) p, (REPROC_STREAM) stream)); }
static ShimRet c_wait(void *p, int t) { return R(reproc_wait((reproc_t *) p, t)); }
static ShimRet c_terminate(void *p) { return R(reproc_terminate((reproc_t *) p)); }
static ShimRet c_kill(void *p) { return R(reproc_kill((reproc_t *) p)); }
static ShimRet c_stopf(void *p, const int s[6]) { return R(reproc_stop((reproc_t *) p, c_stop(s))); }
static void *c_destroy(void *p) { return reproc_destroy((reproc_t *) p); }
static const char *c_strerror(int e) { return reproc_strerror(e); }

struct CbCtx { ShimSinkFn fn; void *ctx; int which; };
static int cb_tramp(REPROC_STREAM stream, const uint8_t *buf, size_t size, void *context) {
  CbCtx *c = (CbCtx *) context;
  return c->fn(c->ctx, c->which, (int) stream, buf, size);
}
static reproc_sink make_sink(int kind, CbCtx *cb, char **str) {
  switch (kind) {
    case 1: return reproc_sink_string(str);
    case 2: return reproc_sink_discard();
    case 5: return REPROC_SINK_NULL;
    case 6: { reproc_sink s = { nullptr, nullptr }; return s; }  // invalid: no function
    default: { reproc_sink s = { cb_tramp, cb }; return s; }
  }
}
static ShimRet c_drain(void *p, int ok, int ek, ShimSinkFn fn, void *ctx, char **os, char **es) {
  CbCtx a = { fn, ctx, 0 }, b = { fn, ctx, 1 };
  return R(reproc_drain((reproc_t *) p, make_sink(ok, &a, os), make_sink(ek, &b, es)));
}
static ShimRet c_run(const char *const *argv, const ShimOptions &o, int mode, int ok, int ek, ShimSinkFn fn, void *ctx, char **os,
                     char **es) {
  if (mode == 0) return R(reproc_run(argv, c_options(o)));
  CbCtx a = { fn, ctx, 0 }, b = { fn, ctx, 1 };
  return R(reproc_run_ex(argv, c_options(o), make_sink(ok, &a, os), make_sink(ek, &b, es)));
}
static void c_free(void *p) { reproc_free(p); }

const ShimApi shim_c = { "c", c_consts, c_new, c_start, c_pid, c_poll, c_read, c_write, c_close, c_wait, c_terminate,
                         c_kill, c_stopf, c_destroy, c_strerror, c_drain, c_run, c_free };
