// Executes one plan against reproc inside simk and evaluates all oracles.
#pragma once
#include <cstdint>
#include <map>
#include <string>
#include <vector>

#include "plan.hpp"
#include "shim.hpp"

struct OpRes {
  bool ran = false;
  long long ret = 0;
  ShimRet raw;
  int64_t t0_ns = 0, t1_ns = 0;
  bool parked = false;
  int64_t parked_ns = 0;
  uint32_t calls = 0;
  std::vector<int> events;  // POLL: events per source
  uint64_t bytes = 0;       // READ/WRITE/DRAIN: payload bytes moved
  bool child_side = false;  // executed in the child after a fork-mode start
};

struct CallSite { int op; bool child; uint8_t kind; int nth; };

// Rare conditions we want to know were reached.
#define PROBES(X)                                                                                                       \
  X(getcwd_grew) X(partial_write) X(write_parked) X(read_parked) X(eof_before_exit) X(exit_before_eof)                   \
  X(data_at_death) X(descendant_left) X(errno_clobbered_by_handler) X(thread_stalled) X(user_file_on_low_fd) X(string_reused_in_place) X(wall_clock_stepped) X(zombie_gap_seen) X(deadline_eq_timeout) X(equal_deadlines) X(expired_at_poll) X(eintr_poll)        \
  X(eintr_read) X(eintr_write) X(eintr_waitpid) X(fault_parent) X(fault_child) X(pid_reused_live_handle)                 \
  X(lib_fd_on_012) X(limit_minus_1_open) X(preempt_in_pipe_init) X(stop_all_waits_expired) X(term_ignored_then_kill)     \
  X(destroy_not_started) X(destroy_failed_start) X(destroy_running) X(destroy_exited_unreaped) X(destroy_reaped)         \
  X(destroy_in_child) X(destroy_null) X(sink_fail_first) X(sink_fail_mid) X(sink_fail_close) X(realloc_fail_first)       \
  X(realloc_fail_later) X(wouldblock_read) X(wouldblock_write) X(input_gt_cap) X(fork_mode_child) X(start_failed)        \
  X(start_ok) X(poll_deadline_event) X(poll_timeout) X(poll_epipe) X(status_signal) X(status_code) X(hang_expected)      \
  X(stop_timeout) X(reoccupied) X(exec_seen) X(multi_thread_overlap) X(wait_deadline) X(cached_status)

enum Probe : int {
#define X(n) P_##n,
  PROBES(X)
#undef X
  P_COUNT
};
extern const char *const probe_name[P_COUNT];

struct RunResult {
  std::vector<Viol> viols;
  std::vector<OpRes> res;
  uint64_t log_hash = 0, sched_hash = 0;
  bool hung = false, capped = false;
  std::string fatal;
  int64_t sim_ns = 0;
  uint64_t calls = 0, switches = 0;
  uint64_t probes[P_COUNT] = { 0 };
  uint64_t fired[simk::K_COUNT] = { 0 };
  uint64_t kind_calls[simk::K_COUNT] = { 0 };
  std::vector<uint32_t> sched;
  std::vector<CallSite> sites;  // library calls of the ops listed in RunOpts::trace_ops
  uint64_t state_hash = 0;      // abstract (op, state, outcome) tuples reached
  std::vector<uint64_t> tuples;
  std::string log_text;         // only with keep_log
};

struct RunOpts {
  bool keep_log = false;
  int trace_op = -1;  // record the call sites of this op (-2: of every op)
};

RunResult run_plan(const Plan &plan, const RunOpts &opts);

// options -> effective redirect, an independent transcription of the header documentation
bool resolve_redirects(const StartSpec &s, int eff[3]);
bool spec_valid(const StartSpec &s, int eff[3]);
