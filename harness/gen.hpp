// seed -> plan, one generator per property profile.
#pragma once
#include <string>
#include <vector>

#include "plan.hpp"
#include "shim.hpp"

struct GenOpts {
  bool thorough = false;
  int binding = 0;  // 0 C, 1 C++, -1 drawn
};

Plan gen_plan(const std::string &profile, uint64_t seed, const GenOpts &o);

// outcome table for fault enumeration
struct Outcome { int err; int variant; bool contractual; };
std::vector<Outcome> outcomes_for(simk::Kind k, bool child_side);
