#!/bin/bash
# Build the simulator + harness for one lane and link it with reproc's objects
# compiled from /repo's *current working tree*.
#
#   bin/build.sh <lane>          lane: asan | plain | tsan | assert
#
# Exit 0 ok, 2 machinery problem (compile error, unmodelled libc symbol).
set -u
LANE="${1:-asan}"
REPO="${REPO:-/repo}"
V="$(cd "$(dirname "$0")/.." && pwd)"
B="$V/build/$LANE"
R="${RUNDIR:-$B/r.$$}"
mkdir -p "$R" "$B/fw"

CXX=g++; CC=gcc
NDEBUG="-DNDEBUG"
case "$LANE" in
  asan)   SAN="-fsanitize=address,undefined -fno-sanitize-recover=undefined -fno-omit-frame-pointer"; OPT="-O1 -g"; FWSAN="$SAN"; DEFS="";;
  assert) SAN="-fsanitize=address,undefined -fno-sanitize-recover=undefined -fno-omit-frame-pointer"; OPT="-O1 -g"; FWSAN="$SAN"; DEFS=""; NDEBUG="";;
  plain)  SAN=""; OPT="-O2 -g"; FWSAN=""; DEFS="";;
  cov)    SAN="--coverage"; OPT="-O0 -g"; FWSAN=""; DEFS="-DSIM_COV";;
  tsan)   CXX=clang++; CC=clang; SAN="-fsanitize=thread"; OPT="-O1 -g"; FWSAN=""; DEFS="-DSIM_TSAN";;
  *) echo "unknown lane $LANE" >&2; exit 2;;
esac

fail() { echo "BUILD-FAIL[$LANE]: $*" >&2; exit 2; }

# ---- framework objects (rebuilt only when sources change)
exec 9>"$B/fw.lock"; flock 9
FW_SRCS="$V/sim/coro.cc $V/sim/simk_core.cc $V/sim/simk_sched.cc $V/sim/simk_sys_io.cc $V/sim/simk_sys_proc.cc $(ls $V/harness/*.cc)"
FW_OBJS=""
PIDS=""
for s in $FW_SRCS; do
  o="$B/fw/$(basename "$s" .cc).o"
  FW_OBJS="$FW_OBJS $o"
  newest=$(ls -t "$s" $V/sim/*.hpp $V/harness/*.hpp 2>/dev/null | head -1)
  if [ ! -f "$o" ] || [ "$newest" -nt "$o" ]; then
    ( $CXX -std=c++17 $OPT $FWSAN $DEFS -Wall -Wno-unused-parameter -Wno-unused-function -Wno-unused-variable -I"$V/sim" -I"$V/harness" \
        -c "$s" -o "$o.tmp.$$" && mv "$o.tmp.$$" "$o" ) &
    PIDS="$PIDS $!"
  fi
done
for m in tlsmark_begin tlsmark_end; do
  o="$B/fw/$m.o"
  if [ ! -f "$o" ] || [ "$V/sim/$m.cc" -nt "$o" ]; then
    ( $CXX -std=c++17 $OPT $DEFS -fno-sanitize=all -c "$V/sim/$m.cc" -o "$o.tmp.$$" && mv "$o.tmp.$$" "$o" ) &
    PIDS="$PIDS $!"
  fi
done
for p in $PIDS; do wait $p || fail "framework compile error"; done
flock -u 9

# ---- reproc objects, always from the working tree
rm -f "$R"/*.o
PIDS=""
for s in "$REPO"/reproc/src/*.c; do
  case "$s" in *windows*) continue;; esac
  o="$R/c_$(basename "$s" .c).o"
  ( $CC -std=c99 $OPT $SAN $NDEBUG -DREPROC_MULTITHREADED -U_FORTIFY_SOURCE -D_GNU_SOURCE_NOT -w \
      -I"$REPO/reproc/include" -I"$REPO/reproc/src" -c "$s" -o "$o" ) &
  PIDS="$PIDS $!"
done
for s in "$REPO"/reproc++/src/*.cpp; do
  o="$R/x_$(basename "$s" .cpp).o"
  ( $CXX -std=c++11 $OPT $SAN $NDEBUG -w -I"$REPO/reproc/include" -I"$REPO/reproc++/include" -c "$s" -o "$o" ) &
  PIDS="$PIDS $!"
done
for s in "$V"/harness/shim/*.cc; do
  o="$R/s_$(basename "$s" .cc).o"
  ( $CXX -std=c++17 $OPT $FWSAN $DEFS -w -I"$V/harness" -I"$REPO/reproc/include" -I"$REPO/reproc++/include" -c "$s" -o "$o" ) &
  PIDS="$PIDS $!"
done
for p in $PIDS; do wait $p || fail "reproc does not compile"; done

# ---- the seam: every libc entry point reproc references is renamed to simk_<name>
nm --defined-only $FW_OBJS | awk '$2 ~ /[TDB]/ && $3 ~ /^simk_/ {print $3}' | sort -u > "$R/simk.syms"
nm --defined-only "$R"/*.o | awk 'NF==3 {print $3}' | sort -u > "$R/reproc.defs"
nm -u "$R"/*.o | awk '$1=="U"||$1=="w" {print $2}' | sort -u | sed 's/@.*//' > "$R/reproc.undef"
comm -23 "$R/reproc.undef" "$R/reproc.defs" > "$R/reproc.ext"
: > "$R/redefine.txt"; : > "$R/unmodelled.txt"
while read -r sym; do
  if grep -qx "simk_$sym" "$R/simk.syms"; then echo "$sym simk_$sym" >> "$R/redefine.txt"; continue; fi
  case "$sym" in
    __asan_*|__ubsan_*|__tsan_*|__sanitizer_*|__gcov_*|__llvm_*|_GLOBAL_OFFSET_TABLE_|__stack_chk_fail|__dso_handle|__gcc_personality_v0) ;;
    _Z*|__cxa_*|__gxx_*|_Unwind_*|__cxx*|pthread_mutex_*|pthread_once|__pthread_key_create) ;;
    mem*|str*|__xpg_strerror_r|abs|labs|__errno_location|environ|stdin|stdout|stderr|__assert_fail|getenv|snprintf|__ctype_b_loc|qsort|bsearch) ;;
    *) echo "$sym" >> "$R/unmodelled.txt";;
  esac
done < "$R/reproc.ext"
if [ -s "$R/unmodelled.txt" ]; then
  echo "UNMODELLED-SYMBOLS: reproc references libc symbols the simulated kernel does not model: $(tr '\n' ' ' < "$R/unmodelled.txt")" >&2
  exit 2
fi
for o in "$R"/*.o; do objcopy --redefine-syms="$R/redefine.txt" "$o" || fail "objcopy"; done
# library statics (.data/.bss of reproc's own objects) go into named sections so that the harness can reset them
# before every plan: one plan is one pristine process image as far as the library can tell
for o in "$R"/c_*.o "$R"/x_*.o; do
  objcopy --rename-section .data=reproc_data --rename-section .bss=reproc_bss "$o" || fail "objcopy sections"
done

LIBS="-lpthread"
# (the two marker objects bracket the library's thread-local storage: link order is layout order)
$CXX $OPT $SAN $FWSAN -o "$R/simcheck" $FW_OBJS "$B/fw/tlsmark_begin.o" "$R"/*.o "$B/fw/tlsmark_end.o" $LIBS || fail "link"
echo "$R/simcheck"
exit 0
